#!/usr/bin/env python3
"""Monitor validation (DESIGN §0.6): builds every catalogued mutant on a scratch copy
of /repo/src, runs its target checks (quick tier) against it and expects a VIOLATION.

usage: tools/selftest.py [--only substr] [--suite] [--jobs N] [--tier quick]
  --suite  also run the repository's own test suite on each mutant (must stay green for
           the mutant to count as 'realistic')
Writes mutants/RESULTS.md (table) - never touches /repo or the committed evidence."""
import argparse
import concurrent.futures as cf
import glob
import importlib.util
import os
import shutil
import subprocess
import sys
import tempfile
from pathlib import Path

VERIF = Path(__file__).resolve().parents[1]
PY = "/venv/bin/python"


def load_specs():
    spec = importlib.util.spec_from_file_location("specs", VERIF / "mutants" / "specs.py")
    mod = importlib.util.module_from_spec(spec)
    spec.loader.exec_module(mod)
    return mod.M


# fix commit (short hash) -> checks expected to flag its reverse
REVERT_TARGETS = {
    "98fdde6": ["C12"], "12b21b2": ["C13"], "175584e": ["C07"], "e31a3e2": ["C07"], "8b6a369": ["C07", "C14"],
    "9ea3ec6": ["C11"], "86fd56c": ["C01"], "5a9857a": ["C06"], "9282647": ["C12"], "77fc523": ["C20", "C05"],
    "ce57551": ["C17"], "86868c5": ["C04"], "32ac457": ["C04"], "a0899d1": ["C10"], "448bbba": ["C10"],
    "68693ca": ["C05"], "0be4aa4": ["C10"], "4e5b07e": ["C11"], "7c3cdbd": ["C02"], "1d85807": ["C06"],
    "7670dc1": ["C15"], "ded7f71": ["C05", "C09"], "80fcf3f": ["C07", "C10"],
    "d4b94b2": ["C16"], "bf995d7": ["C19"], "3c101ad": ["C12"], "adcf901": ["C11"], "1592ea1": ["C11"],
    "cc948ef": ["C04", "C01", "C08"], "e8ae21e": ["C19"],
    "6a3ced7": ["C12"], "67af9ac": ["C10"], "eebcfb0": ["C05", "C07"], "c1878bd": ["C09"], "1a3c814": ["C12"],
    "c4d5923": ["C13"], "e9ed4ba": ["C14"], "390e6aa": ["C15"], "f25e054": ["C17"],
    "5ac2267": ["C20"], "6d82922": ["C16"], "be25ea4": ["C07"],
}


_BASE_SIGS = {}
_BASE_LOCK = __import__("threading").Lock()


def base_signatures(rev: str, cid: str, tier: str):
    """signatures the check reports on the UNPATCHED revision `rev` (defects repaired since) - cached"""
    with _BASE_LOCK:
        if (rev, cid) in _BASE_SIGS:
            return _BASE_SIGS[(rev, cid)]
    base = "/dev/shm" if os.path.isdir("/dev/shm") else "/var/tmp"
    w = tempfile.mkdtemp(prefix="verif-base-", dir=base)
    try:
        assert subprocess.run(f"git -C /repo archive {rev} src pyproject.toml | tar -x -C {w}", shell=True).returncode == 0
        env = dict(os.environ, VERIF_REPO=w, VERIF_EVIDENCE_DIR=os.path.join(w, "evidence"),
                   VERIF_REPLAY_DIR=os.path.join(w, "replay"), PYTHONHASHSEED="0", VERIF_JOBS="4")
        r = subprocess.run([PY, "-m", f"checks.{cid.lower()}", "--tier", tier], cwd=str(VERIF), env=env, capture_output=True, timeout=3600)
        sigs = {l.strip()[10:].split("  ")[0] for l in r.stdout.decode(errors="replace").splitlines() if l.startswith("  signature=")}
    finally:
        shutil.rmtree(w, ignore_errors=True)
    with _BASE_LOCK:
        _BASE_SIGS[(rev, cid)] = sigs
    return sigs


def newest_rev_where_applies(patch: str):
    """the newest /repo revision on which the patch applies without fuzz (None if there is none)"""
    revs = subprocess.check_output("git -C /repo rev-list HEAD", shell=True, text=True).split()
    base = "/dev/shm" if os.path.isdir("/dev/shm") else "/var/tmp"
    for rev in revs[1:]:
        w = tempfile.mkdtemp(prefix="verif-rev-", dir=base)
        try:
            if subprocess.run(f"git -C /repo archive {rev} src | tar -x -C {w}", shell=True).returncode != 0:
                continue
            if subprocess.run(["patch", "-p1", "-s", "-F0", "--dry-run", "-d", w, "-i", patch], capture_output=True).returncode == 0:
                return rev[:7]
        finally:
            shutil.rmtree(w, ignore_errors=True)
    return None


def build(work: str, mut) -> str:
    shutil.copytree("/repo/src", os.path.join(work, "src"))
    if "patch" in mut:
        # no fuzz: a hunk that only fits somewhere else (dead code after a later refactoring) is not this mutant
        p = subprocess.run(["patch", "-p1", "-s", "-F0", "-d", work, "-i", mut["patch"]], capture_output=True)
        if p.returncode != 0 and "seeded" in mut["name"] and not mut.get("base_rev"):
            mut["base_rev"] = newest_rev_where_applies(mut["patch"])
        if p.returncode != 0 and mut.get("base_rev"):
            # a seeded change whose context a later fix rewrote: build it on the revision it was confirmed against
            shutil.rmtree(os.path.join(work, "src"))
            for junk in glob.glob(os.path.join(work, "**", "*.rej"), recursive=True) + glob.glob(os.path.join(work, "**", "*.orig"), recursive=True):
                os.remove(junk)
            assert subprocess.run(f"git -C /repo archive {mut['base_rev']} src | tar -x -C {work}", shell=True).returncode == 0
            p = subprocess.run(["patch", "-p1", "-s", "-F0", "-d", work, "-i", mut["patch"]], capture_output=True)
            if p.returncode != 0:
                # the recorded revision took the patch only with fuzz: look for one that takes it exactly
                rev2 = newest_rev_where_applies(mut["patch"])
                if rev2:
                    shutil.rmtree(os.path.join(work, "src"))
                    assert subprocess.run(f"git -C /repo archive {rev2} src | tar -x -C {work}", shell=True).returncode == 0
                    p = subprocess.run(["patch", "-p1", "-s", "-F0", "-d", work, "-i", mut["patch"]], capture_output=True)
                    mut["base_rev"] = rev2
            if p.returncode == 0:
                mut["built_on"] = mut["base_rev"]
        if p.returncode != 0:
            return "patch does not apply: " + (p.stdout.decode() + p.stderr.decode())[-200:]
    else:
        f = os.path.join(work, "src", "datashard", mut["file"])
        s = open(f).read()
        if s.count(mut["old"]) != 1:
            return f"old string occurs {s.count(mut['old'])}x in {mut['file']}"
        open(f, "w").write(s.replace(mut["old"], mut["new"]))
    r = subprocess.run([PY, "-c", "import datashard, datashard.transaction"], env=dict(os.environ, PYTHONPATH=os.path.join(work, "src")),
                       capture_output=True)
    if r.returncode != 0:
        return "does not import: " + r.stderr.decode()[-200:]
    return ""


def run_one(mut, tier: str, suite: bool):
    base = "/dev/shm" if os.path.isdir("/dev/shm") else "/var/tmp"
    work = tempfile.mkdtemp(prefix="verif-mut-", dir=base)
    res = {"name": mut["name"], "checks": {}, "suite": "-", "error": ""}
    try:
        err = build(work, mut)
        if err:
            res["error"] = err
            return res
        if suite:
            shutil.copytree("/repo/tests", os.path.join(work, "tests"))
            shutil.copytree("/repo/docs", os.path.join(work, "docs"))
            shutil.copy("/repo/pyproject.toml", work)
            r = subprocess.run([PY, "-m", "pytest", "-q", "-p", "no:cacheprovider", "-x", "--timeout=600", "tests",
                                "--deselect", "tests/test_scan_features.py"], cwd=work,
                               env=dict(os.environ, PYTHONPATH=os.path.join(work, "src"), DATASHARD_STORAGE_TYPE="local"),
                               capture_output=True, timeout=1800)
            tail = r.stdout.decode(errors="replace").strip().splitlines()[-1:] or [""]
            res["suite"] = "green" if r.returncode == 0 else "RED " + tail[0][:60]
        env = dict(os.environ, VERIF_REPO=work, VERIF_EVIDENCE_DIR=os.path.join(work, "evidence"),
                   VERIF_REPLAY_DIR=os.path.join(work, "replay"), PYTHONHASHSEED="0", VERIF_JOBS="4")
        for cid in mut["checks"]:
            r = subprocess.run([PY, "-m", f"checks.{cid.lower()}", "--tier", tier], cwd=str(VERIF), env=env,
                               capture_output=True, timeout=3600)
            lines = r.stdout.decode(errors="replace").splitlines()
            sigs = [l.strip()[10:].split("  ")[0] for l in lines if l.startswith("  signature=")]
            nviol = sum(1 for l in lines if l.startswith("VIOLATION"))
            rc = r.returncode
            if mut.get("built_on"):
                bs = base_signatures(mut["built_on"], cid, tier)
                sigs = [x for x in sigs if x not in bs]
                nviol = len(sigs)
                rc = 1 if sigs else 0
                res["suite"] = (res["suite"] + f" [on {mut['built_on']}]").strip()
            res["checks"][cid] = {"rc": rc, "nviol": nviol, "sigs": sigs[:3]}
        return res
    finally:
        shutil.rmtree(work, ignore_errors=True)


def main() -> int:
    ap = argparse.ArgumentParser()
    ap.add_argument("--only", default="")
    ap.add_argument("--suite", action="store_true")
    ap.add_argument("--jobs", type=int, default=4)
    ap.add_argument("--tier", default="quick")
    ap.add_argument("--extra-dir", default="")
    a = ap.parse_args()
    muts = list(load_specs())
    for p in sorted(glob.glob(str(VERIF / "mutants" / "revert_*.diff"))):
        name = os.path.basename(p)[:-5]
        targets = next((v for k, v in REVERT_TARGETS.items() if f"revert_{k}" in name), None)
        if targets is None and name.startswith("revert_"):
            targets = []
        if targets is not None:
            if not targets:
                print("WARNING: no target checks registered for", name)
                continue
            muts.append({"name": name, "checks": targets, "patch": p})
    for d in sorted(glob.glob(str(VERIF / "seeded" / "*"))):
        meta = os.path.join(d, "meta.json")
        if os.path.exists(meta):
            import json
            mm = json.load(open(meta))
            if str(mm.get("note", "")).startswith("SUPERSEDED"):
                continue        # neutralised by a later fix; see its meta.json
            for pf in sorted(glob.glob(os.path.join(d, "patch*.diff"))):
                if pf.endswith(".orig.diff"):
                    continue        # kept for the record only; the rebased patch.diff is the mutant
                muts.append({"name": "seeded_" + os.path.basename(d) + "_" + os.path.basename(pf)[:-5],
                             "checks": mm.get("detected_by") or [mm["property"]], "patch": pf, "base_rev": mm.get("base_rev")})
    if a.only:
        muts = [m for m in muts if a.only in m["name"] or a.only in ",".join(m["checks"])]
    results = []
    with cf.ThreadPoolExecutor(max_workers=a.jobs) as ex:
        for r in ex.map(lambda m: run_one(m, a.tier, a.suite), muts):
            det = any(c["rc"] == 1 and c["nviol"] for c in r["checks"].values())
            print(("DETECTED " if det else "MISSED   ") + r["name"], r["suite"], r["error"],
                  {k: (v["rc"], v["nviol"], v["sigs"][:1]) for k, v in r["checks"].items()}, flush=True)
            results.append((r, det))
    out = ["# Mutant self-test results (" + a.tier + " tier)", "",
           "| mutant | repo suite | detected | by (check: rc, #violations, first signature) |", "|---|---|---|---|"]
    for r, det in results:
        by = "; ".join(f"{k}: rc={v['rc']}, {v['nviol']}, {v['sigs'][:1]}" for k, v in r["checks"].items())
        out.append(f"| {r['name']} | {r['suite']} | {'yes' if det else 'NO'} {r['error']} | {by} |")
    out.append("")
    out.append(f"{sum(1 for _r, d in results if d)}/{len(results)} detected")
    if not a.only:
        (VERIF / "mutants" / "RESULTS.md").write_text("\n".join(out) + "\n")
    print(out[-1])
    return 0 if all(d for _r, d in results) else 1


if __name__ == "__main__":
    sys.exit(main())
