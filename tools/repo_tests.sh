#!/bin/sh
# Runs the repository's pinned baseline suite (hooks: none exist) and prints the summary.
cd /repo && /venv/bin/python -m pytest -ra -q -p no:cacheprovider --timeout=900 --continue-on-collection-errors --junitxml=/dev/shm/verif-baseline.junit.xml "$@" 2>&1 | tail -15
