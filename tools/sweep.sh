#!/bin/sh
# usage: tools/sweep.sh <tier> <seed>... ; runs every claimed check for each seed, prints one line each
cd "$(dirname "$0")/.." || exit 2
tier=$1; shift
for seed in "$@"; do
  for id in $(python3 -c "import json;print(' '.join(c['property_id'] for c in json.load(open('MANIFEST.json'))['checks']))"); do
    out=$(VERIF_SEED=$seed bin/check $id $tier 2>&1); rc=$?
    echo "seed=$seed $id rc=$rc $(echo "$out" | tail -1 | cut -c1-160)"
    if [ $rc -ne 0 ]; then echo "$out" | grep -E "VIOLATION|INCONCLUSIVE|signature" | head -6; fi
  done
done
