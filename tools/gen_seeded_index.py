#!/usr/bin/env python3
"""Writes seeded/INDEX.md from seeded/*/meta.json"""
import glob
import json
import os
from pathlib import Path

VERIF = Path(__file__).resolve().parents[1]
rows = []
for mf in sorted(glob.glob(str(VERIF / "seeded" / "*" / "meta.json"))):
    m = json.load(open(mf))
    name = os.path.basename(os.path.dirname(mf))
    det = m.get("detected_by") or []
    sigs = []
    for c in det:
        sigs += m["checks"][c]["signatures"][:2]
    rows.append((name, m["property"], m.get("summary", ""), m.get("needs", ""), ", ".join(det) or "NOT DETECTED",
                 "; ".join(sigs)[:160]))
out = ["# Independently seeded breaking changes", "",
       "Each change was produced by a fresh sub-agent that saw only the property text and its own scratch worktree,",
       "then confirmed here (demo passes on the unchanged tree, patch applies, repository suite green with the patch,",
       "demo fails with the patch) by `tools/verify_seed.py`, which also ran the listed checks (quick tier) against a",
       "patched scratch copy. `meta.json` in each directory records what was run.", "",
       "| seed | property | what it breaks | needs, to manifest | detected by | first signatures |", "|---|---|---|---|---|---|"]
for r in rows:
    out.append("| " + " | ".join(x.replace("|", "/").replace("\n", " ") for x in r) + " |")
out.append("")
out.append(f"{sum(1 for r in rows if r[4] != 'NOT DETECTED')}/{len(rows)} detected by the quick tier of at least one check")
(VERIF / "seeded" / "INDEX.md").write_text("\n".join(out) + "\n")
print(out[-1])
