#!/usr/bin/env python3
"""Confirms an independently produced breaking change and runs our checks against it.

usage: tools/verify_seed.py <seed dir with patch.diff + demo.py> <name> <property> <check ids...> [--tier quick]
Steps (all on a scratch copy of /repo, never /repo itself):
  1. demo on the unchanged tree  -> must exit 0
  2. patch applies; package imports
  3. repository test suite with the patch -> must be green (pandas tests deselected)
  4. demo with the patch -> must exit non-zero
  5. each listed check (quick tier) with the patch -> VIOLATION expected
Writes /verif/seeded/<name>/{patch.diff,demo.py,meta.json,NOTES.md}."""
import json
import os
import shutil
import subprocess
import sys
import tempfile
from pathlib import Path

VERIF = Path(__file__).resolve().parents[1]
PY = "/venv/bin/python"


def sh(cmd, cwd, env=None, timeout=3600):
    r = subprocess.run(cmd, cwd=cwd, env=env, capture_output=True, timeout=timeout)
    return r.returncode, (r.stdout.decode(errors="replace") + r.stderr.decode(errors="replace"))


def main() -> int:
    args = [a for a in sys.argv[1:] if not a.startswith("--")]
    tier = "quick"
    if "--tier" in sys.argv:
        tier = sys.argv[sys.argv.index("--tier") + 1]
        args = [a for a in args if a != tier]
    seeddir, name, prop, checks = args[0], args[1], args[2], args[3:]
    patch = os.path.join(seeddir, "patch.diff")
    demo = os.path.join(seeddir, "demo.py")
    base = "/dev/shm" if os.path.isdir("/dev/shm") else "/var/tmp"
    work = tempfile.mkdtemp(prefix="verif-seedv-", dir=base)
    meta = {"property": prop, "name": name, "ran": []}
    try:
        rev = os.environ.get("VERIF_SEED_BASE_REV")
        if rev:
            # confirm against the repository revision the seed was written for (a later fix may have
            # changed behaviour the seed's own demonstration relies on)
            ar = subprocess.run(f"git -C /repo archive {rev} src tests docs pyproject.toml | tar -x -C {work}", shell=True)
            assert ar.returncode == 0
            meta["base_rev"] = rev
        else:
            for d in ("src", "tests", "docs"):
                shutil.copytree(f"/repo/{d}", os.path.join(work, d))
            shutil.copy("/repo/pyproject.toml", work)
            meta["base_rev"] = subprocess.check_output("git -C /repo rev-parse --short HEAD", shell=True, text=True).strip()
        shutil.copy(demo, os.path.join(work, "demo.py"))
        env = dict(os.environ, PYTHONPATH=os.path.join(work, "src"), DATASHARD_STORAGE_TYPE="local", PYTHONHASHSEED="0")
        rc0, out0 = sh([PY, "demo.py"], work, env, 900)
        meta["demo_unpatched_rc"] = rc0
        meta["ran"].append(f"demo.py on the unchanged tree -> exit {rc0}")
        rcp, outp = sh(["patch", "-p1", "-s", "-i", os.path.abspath(patch)], work)
        meta["patch_applies"] = rcp == 0
        if rcp != 0:
            print("patch does not apply", outp[-400:])
            meta["ran"].append("patch does not apply to the current tree")
        else:
            rci, outi = sh([PY, "-c", "import datashard"], work, env)
            rcs, outs = sh([PY, "-m", "pytest", "-q", "--timeout=600", "tests",
                            "--deselect", "tests/test_scan_features.py::TestEdgeCases::test_to_pandas_empty_table",
                            "-k", "not pandas and not Pandas"], work, env, 1800)
            if rcs != 0:
                # timing-sensitive repository tests can fail on a loaded machine: re-run only the failures once
                rcs, outs2 = sh([PY, "-m", "pytest", "-q", "--timeout=600", "tests", "--lf",
                                 "-k", "not pandas and not Pandas"], work, env, 1800)
                outs = outs + "\n(re-run of failures) " + (outs2.strip().splitlines()[-1] if outs2.strip() else "")
            tail = outs.strip().splitlines()[-1] if outs.strip() else ""
            meta["suite_with_patch"] = tail
            meta["suite_green"] = rcs == 0
            meta["ran"].append(f"pytest tests (pandas tests deselected) with the patch -> {tail}")
            rc1, out1 = sh([PY, "demo.py"], work, env, 900)
            meta["demo_patched_rc"] = rc1
            meta["demo_patched_tail"] = out1.strip().splitlines()[-3:]
            meta["ran"].append(f"demo.py with the patch -> exit {rc1}")
            cenv = dict(os.environ, VERIF_REPO=work, VERIF_EVIDENCE_DIR=os.path.join(work, "evidence"),
                        VERIF_REPLAY_DIR=os.path.join(work, "replay"), PYTHONHASHSEED="0")
            meta["checks"] = {}
            base_sigs = {}
            if rev:
                # an older revision has defects of its own (repaired since): run every check against the UNPATCHED
                # base as well and attribute to the seed only the signatures the patch adds
                bwork = work + "-base"
                os.makedirs(bwork)
                assert subprocess.run(f"git -C /repo archive {rev} src pyproject.toml | tar -x -C {bwork}", shell=True).returncode == 0
                benv = dict(cenv, VERIF_REPO=bwork, VERIF_EVIDENCE_DIR=os.path.join(bwork, "evidence"),
                            VERIF_REPLAY_DIR=os.path.join(bwork, "replay"))
                for cid in checks:
                    _rcb, outb = sh([PY, "-m", f"checks.{cid.lower()}", "--tier", tier], str(VERIF), benv, 7200)
                    base_sigs[cid] = {l.strip().split("  ")[0][10:] for l in outb.splitlines() if l.startswith("  signature=")}
                shutil.rmtree(bwork, ignore_errors=True)
            for cid in checks:
                rcc, outc = sh([PY, "-m", f"checks.{cid.lower()}", "--tier", tier], str(VERIF), cenv, 7200)
                lines = outc.splitlines()
                allsigs = sorted({l.strip().split("  ")[0][10:] for l in lines if l.startswith("  signature=")})
                sigs = [x for x in allsigs if x not in base_sigs.get(cid, set())]
                meta["checks"][cid] = {"rc": rcc if sigs or not rev else 0,
                                       "violations": (sum(1 for l in lines if l.startswith("VIOLATION")) if not rev else len(sigs)),
                                       "signatures": sigs[:6], "summary": (lines[-1][:200] if lines else "")}
                if rev:
                    meta["checks"][cid]["signatures_of_the_unpatched_base"] = sorted(base_sigs.get(cid, set()))[:8]
                meta["ran"].append(f"bin/check {cid} {tier} against the patched copy -> rc={rcc}, signatures {sigs[:3]}"
                                   + (f" (beyond the {len(base_sigs.get(cid, set()))} signatures of the unpatched base {rev})" if rev else ""))
            meta["detected_by"] = [c for c, v in meta["checks"].items() if v["rc"] == 1 and v["violations"]]
        confirmed = meta.get("demo_unpatched_rc") == 0 and meta.get("patch_applies") and meta.get("suite_green") \
            and meta.get("demo_patched_rc", 0) != 0
        meta["confirmed"] = bool(confirmed)
        print(json.dumps(meta, indent=1))
        if confirmed:
            dest = VERIF / "seeded" / name
            dest.mkdir(parents=True, exist_ok=True)
            shutil.copy(patch, dest / "patch.diff")
            shutil.copy(demo, dest / "demo.py")
            notes = os.path.join(seeddir, "NOTES.md")
            if os.path.exists(notes):
                shutil.copy(notes, dest / "NOTES.md")
            needs = ""
            (dest / "meta.json").write_text(json.dumps(meta, indent=1) + "\n")
        return 0 if confirmed else 1
    finally:
        shutil.rmtree(work, ignore_errors=True)


if __name__ == "__main__":
    sys.exit(main())
