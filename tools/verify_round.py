#!/usr/bin/env python3
"""Stage and verify a round of independently seeded changes.

usage: tools/verify_round.py <round dir, e.g. /tmp/seed2> <tag, e.g. r2> [IDs...]
For every <round dir>/<ID>/SEED/{patch.diff,demo.py[,patch2.diff,demo2.py,patch3.diff,demo3.py]} runs
tools/verify_seed.py (4 at a time) with the property's own check plus related checks."""
import concurrent.futures as cf
import json
import os
import shutil
import subprocess
import sys
from pathlib import Path

VERIF = Path(__file__).resolve().parents[1]
RELATED = {"C01": ["C01", "C04", "C19"], "C02": ["C02"], "C03": ["C03", "C04"], "C04": ["C04", "C09"], "C05": ["C05", "C06"], "C06": ["C06"],
           "C07": ["C07"], "C08": ["C08", "C19", "C01"], "C09": ["C09", "C04"], "C10": ["C10", "C18"], "C11": ["C11", "C13"], "C12": ["C12", "C13"],
           "C13": ["C13", "C11"], "C14": ["C14"], "C15": ["C15", "C01", "C10"], "C16": ["C16", "C04"], "C17": ["C17"], "C18": ["C18"],
           "C19": ["C19"], "C20": ["C20"]}


def main() -> int:
    rdir, tag = sys.argv[1], sys.argv[2]
    ids = sys.argv[3:] or sorted(d for d in os.listdir(rdir) if d.startswith("C") and os.path.isdir(os.path.join(rdir, d, "SEED")))
    stage = os.path.join(rdir, "_stage")
    os.makedirs(stage, exist_ok=True)
    jobs = []
    for pid in ids:
        sd = os.path.join(rdir, pid, "SEED")
        for letter, (pf, df) in zip("abc", [("patch.diff", "demo.py"), ("patch2.diff", "demo2.py"), ("patch3.diff", "demo3.py")]):
            if os.path.exists(os.path.join(sd, pf)) and os.path.exists(os.path.join(sd, df)):
                name = f"{pid}{tag}{letter}"
                d = os.path.join(stage, name)
                os.makedirs(d, exist_ok=True)
                shutil.copy(os.path.join(sd, pf), os.path.join(d, "patch.diff"))
                shutil.copy(os.path.join(sd, df), os.path.join(d, "demo.py"))
                if os.path.exists(os.path.join(sd, "NOTES.md")):
                    shutil.copy(os.path.join(sd, "NOTES.md"), d)
                jobs.append((name, pid, d))

    def run(job):
        name, pid, d = job
        out = os.path.join(stage, name + ".out")
        r = subprocess.run([sys.executable, str(VERIF / "tools" / "verify_seed.py"), d, name, pid] + RELATED[pid],
                           capture_output=True, timeout=4 * 3600)
        txt = r.stdout.decode(errors="replace") + r.stderr.decode(errors="replace")
        base = os.environ.get("VERIF_ROUND_BASE_REV")
        if base and ('"patch_applies": false' in txt or '"demo_unpatched_rc": 1' in txt or '"demo_patched_rc": 0' in txt):
            # written for an earlier revision whose context a later fix rewrote (or whose effect a later fix
            # neutralised): confirm and check against that revision
            r = subprocess.run([sys.executable, str(VERIF / "tools" / "verify_seed.py"), d, name, pid] + RELATED[pid],
                               capture_output=True, timeout=6 * 3600, env=dict(os.environ, VERIF_SEED_BASE_REV=base))
            txt = r.stdout.decode(errors="replace") + r.stderr.decode(errors="replace")
        open(out, "w").write(txt)
        try:
            i = txt.index('{\n "property"')
            m = json.loads(txt[i:txt.rindex("}") + 1])
            return name, m.get("confirmed"), m.get("demo_unpatched_rc"), m.get("suite_green"), m.get("demo_patched_rc"), m.get("detected_by"), \
                {k: v["signatures"][:2] for k, v in m.get("checks", {}).items()}
        except Exception:
            return name, "PARSE-FAIL", txt[-300:]

    with cf.ThreadPoolExecutor(max_workers=4) as ex:
        for res in ex.map(run, jobs):
            print(*res, flush=True)
    return 0


if __name__ == "__main__":
    sys.exit(main())
