#!/bin/sh
# runs every thorough tier once (sequentially) and prints one line per check
cd "$(dirname "$0")/.." || exit 2
for id in ${@:-C01 C02 C03 C04 C05 C06 C07 C08 C09 C10 C11 C12 C13 C14 C15 C16 C17 C18 C19 C20}; do
  start=$(date +%s)
  out=$(bin/check $id thorough 2>&1); rc=$?
  echo "$id rc=$rc $(( $(date +%s) - start ))s $(echo "$out" | tail -1 | cut -c1-220)"
  if [ $rc -ne 0 ]; then echo "$out" | grep -E "VIOLATION|INCONCLUSIVE|signature" | head -8 | cut -c1-300; fi
done
