#!/usr/bin/env python3
"""Run checks against a scratch copy of /repo with a patch applied (never touches /repo).

usage: tools/try_patch.py <patch.diff> <tier> <ID> [<ID>...]
Prints, per check: exit code, VIOLATION/KNOWN/INCONCLUSIVE lines and the summary line.
Exit code 0 if at least one check reported a VIOLATION (the patch was detected)."""
import os
import shutil
import subprocess
import sys
import tempfile
from pathlib import Path

VERIF = Path(__file__).resolve().parents[1]


def main() -> int:
    patch, tier, ids = sys.argv[1], sys.argv[2], sys.argv[3:]
    base = "/dev/shm" if os.path.isdir("/dev/shm") else "/var/tmp"
    work = tempfile.mkdtemp(prefix="verif-mut-", dir=base)
    try:
        rev = os.environ.get("VERIF_PATCH_BASE_REV")
        if rev:     # a patch written for an earlier revision (its context was rewritten by a later fix)
            assert subprocess.run(f"git -C /repo archive {rev} src pyproject.toml | tar -x -C {work}", shell=True).returncode == 0
        else:
            shutil.copytree("/repo/src", os.path.join(work, "src"))
            for extra in ("pyproject.toml",):
                shutil.copy(os.path.join("/repo", extra), work)
        p = subprocess.run(["patch", "-p1", "-s", "-d", work, "-i", os.path.abspath(patch)], capture_output=True)
        if p.returncode != 0:
            print("PATCH DOES NOT APPLY:", p.stdout.decode()[-400:], p.stderr.decode()[-400:])
            return 3
        env = dict(os.environ, VERIF_REPO=work, VERIF_EVIDENCE_DIR=os.path.join(work, "evidence"),
                   VERIF_REPLAY_DIR=os.path.join(work, "replay"), PYTHONHASHSEED="0")
        detected = False
        for cid in ids:
            r = subprocess.run(["/venv/bin/python", "-m", f"checks.{cid.lower()}", "--tier", tier], cwd=str(VERIF),
                               env=env, capture_output=True, timeout=7200)
            out = r.stdout.decode(errors="replace")
            lines = out.splitlines()
            vio = [l for l in lines if l.startswith(("VIOLATION", "  signature"))]
            print(f"== {cid} rc={r.returncode} violations={sum(1 for l in lines if l.startswith('VIOLATION'))}")
            for l in vio[:8]:
                print("   ", l[:260])
            for l in lines:
                if l.startswith("INCONCLUSIVE"):
                    print("   ", l[:260])
            if lines:
                print("   ", lines[-1][:200])
            if r.returncode == 1 and any(l.startswith("VIOLATION") for l in lines):
                detected = True
        return 0 if detected else 1
    finally:
        shutil.rmtree(work, ignore_errors=True)


if __name__ == "__main__":
    sys.exit(main())
