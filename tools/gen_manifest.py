#!/usr/bin/env python3
"""Regenerates /verif/MANIFEST.json from the table below (single source of truth)."""
import json
import os
from pathlib import Path

VERIF = Path(__file__).resolve().parents[1]

CHECKS = {
    "C16": dict(
        category="fault_enumeration", design_ref="DESIGN.md §2 C16",
        technique="strace syscall trace of the table's whole life + offline power-loss checker at every pointer flip + durable-image replay opened with the real library",
        text="A child process performs create, appends, multi-append, deletes, delete_snapshot, expire, collection under "
             "strace -f -y (pyarrow's own writes included). The offline checker replays the trace in a power-loss model: at "
             "every rename onto the pointer each file reachable from the new pointer value must have been fsynced after its "
             "last write, its directory entry persisted by a directory fsync, and its ancestors persisted. The durable "
             "image after every flip / root fsync (quick) or every fsync, rename, unlink (thorough) is materialised from "
             "the traced payloads and opened by the independent reader and the library: a surviving pointer must lead to "
             "fully readable snapshots. Six further traced lives inject an fsync failure (nothing flushed) on each file kind: "
             "the faulted append must not be acknowledged with a pointer to unflushed content.",
        note="Conservative model over a real trace on tmpfs; real disks / NFS semantics are out of reach. The commit's own "
             "durability after acknowledgement is measured, not judged.",
    ),
    "C03": dict(
        category="fault_enumeration", design_ref="DESIGN.md §2 C03",
        technique="crash-point enumeration: child process killed (os._exit) before every measured OS-level call of each operation, then reopen + state oracle by an independent reader",
        text="For 9 operation types on tables with 0/1/3 prior snapshots a dry run in a child process measures every "
             "effectful OS-level call under the table root (open-for-write, write, fsync, close, replace, remove, mkdir, "
             "flock, parquet-writer stages); a fresh child is then killed immediately before call #k for every k, with "
             "torn-write and truncated-temp-parquet variants. After each crash the parent checks: state is pre or post "
             "(post only if the pointer moved), every retained snapshot readable by the independent reader and by the "
             "library, a follow-up append yields state+1, and a collection (grace 0, marker timeout 0) deletes nothing "
             "reachable and leaves the table intact.",
        note="Process-crash model (completed syscalls persist); kills inside pyarrow's C++ writes are emulated by "
             "truncating the temporary file.",
    ),
    "C04": dict(
        category="fault_enumeration", design_ref="DESIGN.md §2 C04",
        technique="enumerated fault injection at every storage call / S3 request of each commit scenario (before effect, after effect, asynchronous BaseException, double faults, line-level interrupts via sys.monitoring) with an outcome<->state oracle",
        text="A dry run measures the L1 calls (local) / S3 requests (CAS and non-CAS double) of 6 commit scenarios in up "
             "to 3 call styles; every call is failed before its effect (OSError, ENOSPC | transient beyond budget, "
             "permanent), after its effect (S3 PUT/DELETE applied then client error: ambiguous commits), and surrounded "
             "by KeyboardInterrupt/SystemExit; double faults hit the next clean-up call; line-level KeyboardInterrupts "
             "(every 6th line event of append in quick, every line event of all scenarios in thorough). Oracle: "
             "returned=>post; storage error=>pre unless AmbiguousCommitError (then no transaction file deleted); "
             "BaseException=>pre or post; referenced files exist; same and fresh handle stay writable; uncommitted "
             "files never become reachable after a follow-up commit and a collection.",
        note="Single faults + one class of double faults; interrupts between bytecodes of one line are not explored.",
    ),
    "C17": dict(
        category="exploration", design_ref="DESIGN.md §2 C17",
        technique="process-wide audit-hook containment monitor + sentinel-tree fingerprint + independent path classifier over an exhaustive path grammar x entry points x root spellings, and tampered-table scans/collections",
        text="Every path string of depth <=3 (quick) / <=4 (thorough) over 9 components (with and without leading '/'), "
             "plus absolute sentinel/decoy paths, is passed to 22 entry points on a table opened directly and through a "
             "symlink, inside an arena holding a sibling-prefix table, outside sentinels and in-table symlinks to inside, "
             "outside dir, outside file and sibling. A sys.addaudithook monitor records every open/remove/rename/"
             "listdir/mkdir... whose canonical target is outside the canonical root (or a decoy); the sentinel tree is "
             "fingerprinted around every call; strings an independent classifier marks escaping must raise. Tampered "
             "manifest entries / manifest paths / manifest_list / marker payloads / listings are scanned and collected; a "
             "directory a long-lived handle already used is swapped for a symlink to the outside; on the S3 backend every "
             "request key must stay under the table prefix for the same grammar.",
        note="Opens inside pyarrow's C++ are invisible to audit hooks (the directory is chosen by monitored Python code).",
    ),
    "C20": dict(
        category="exploration", design_ref="DESIGN.md §2 C20",
        technique="differential execution local vs S3-on-double per operation; range-reader vs local-file differential over enumerated seek/read programs with Range-header oracle; enumerated retry fault prefixes with attempt counting",
        text="(a) random op programs over 12 colliding keys and 11 list prefixes are run op by op on both backends and "
             "compared (bytes, exact-key existence, listings as sets confined to the directory, sizes, not-found). (b) all "
             "seek/read/readinto/readall/tell programs of <=2 (quick) / <=3 (thorough) steps + random longer ones over 6 "
             "boundary sizes, bare and buffered, against a local file; every Range header must be in range. (c) for 12 S3 "
             "request kinds: 0..7 transient failures of 4 kinds and permanent errors after 0..5 transients; result and "
             "attempt count must follow the retry contract; write_file_cas stays single-attempt.",
        note="Directory existence, lock artefacts and mtime values are outside the compared contract.",
    ),
    "C18": dict(
        category="exploration", design_ref="DESIGN.md §2 C18",
        technique="controlled scheduling of creator/opener/first-appender threads over 4 initial states and 2 backends; identity/schema/rows oracle by an independent reader",
        text="2 actors from {create_table(schema A|B|none), create+first append, load_table, Table(path), load+append} "
             "start from {absent, healthy, pointer lost, creation interrupted} on local storage and the CAS-S3 double; all "
             "<=1-preemption schedules of 8 actor pairs x 4 states (quick; <=2 for three key cells, <=2 everywhere in "
             "thorough), 3 actors under PCT/random. All callers must see one uuid; an existing table's uuid, schema and "
             "snapshots are unchanged; exactly one initial pointer write from 'absent'; rows == existing + acked appends; "
             "schema-less appends without any schema raise.",
        note="A v0 metadata file without pointer counts as an existing (empty) table.",
    ),
    "C19": dict(
        category="exploration", design_ref="DESIGN.md §2 C19",
        technique="controlled scheduling at syscall (local flock) / S3-request granularity with a logical clock; online mutual-exclusion, lease and timeout monitors; multi-process kill stress with an interval-log checker",
        text="(a) 2-3 real FileLock objects on one path (kernel flock arbitrates between fds) with gates at "
             "os.open/fcntl.flock/os.close and a logical monotonic clock: all <=2-preemption schedules for 2 contenders "
             "(budgeted per shard in quick), <=1 for 3; invariant 'at most one actor between acquire() and release()' at "
             "every step; a blocked acquirer must raise TimeoutError within [timeout, timeout+poll] of logical time. "
             "(b) 8 processes x 150 rounds with SIGKILLs of holders: enter/exit log has no overlap, counter == sections. "
             "(c) 2-3 real S3LockProviders over the double with clock (lease expiry) and heartbeat actors: no acquire "
             "while another holder's lease is live, owner changes only after the lease lapsed, superseded holder's "
             "is_held() is False, acquire()==True only if the object carries its id, timeouts on the logical clock.",
        note="O_EXCL fallback / msvcrt cannot run here; polling S3 provider is outside the property.",
    ),
    "C06": dict(
        category="exploration", design_ref="DESIGN.md §2 C06",
        technique="controlled scheduling of a collector thread against committing transaction threads (bounded-preemption DFS, PCT, random) with aged files; final-reachability oracle + deletion log",
        text="One real collect() (grace 1 h) and 1-2 real transactions (commit of a long-running transaction whose "
             "files were written and aged before the collection started, append, multi-append, delete+append, commit "
             "failing at the pointer write) run under the cooperative scheduler with a gate before every storage "
             "operation; all schedules with <=1 preemption for every kind and <=2 for three kinds (quick) / all (thorough, "
             "+k=3 for two). When every actor is done each file of every snapshot in the final metadata must exist and "
             "parse and acked rows must be readable; the deletion log names the culprit; an online monitor flags the collector "
             "deleting a file of a still-active transaction (incl. a transaction forced to retry by a second one).",
        note="Files written after the collector's first storage call stay fresh (proviso: grace exceeds the run).",
    ),
    "C08": dict(
        category="exploration", design_ref="DESIGN.md §2 C08",
        technique="controlled scheduling at S3-request granularity over an in-memory conditional-write S3 double with virtual-clock lease expiry and heartbeat actors; per-CAS oracle 'replaced pointer == validated version' + fence-truth monitor + per-flip delta model",
        text="Committers run the real S3 backend / S3LockProvider against the double with a gate before the effect of "
             "every request (a parked PUT is a delayed in-flight PUT); a clock actor expires the lease, a heartbeat actor "
             "drives real renewals; the lock is the real CAS lock or a stub granting everyone. All <=1-preemption "
             "schedules for every cell, <=2 for the key cells (quick, budgeted for the 3-actor cell) / <=2 everywhere and "
             "<=3 key cells (thorough); 3 committers under PCT/random. At every successful conditional PUT of the "
             "pointer the replaced content must name the version that actor fetched for validation; an attempt whose "
             "ownership read showed another owner must not flip; an actor whose lock object was overwritten by another writer "
             "before its last pre-commit request must not be acknowledged (thief cells: a contender that takes the lock "
             "over and keeps it); C01's per-flip delta model applies.",
        note="S3 = strongly consistent double; real providers' quirks are out of reach offline.",
    ),
    "C01": dict(
        category="exploration", design_ref="DESIGN.md §2 C01",
        technique="controlled scheduling of real committer threads (bounded-preemption DFS, PCT, random) + per-pointer-flip delta oracle by an independent reader; multi-process stress",
        text="Real commits (append, multi-append, delete_files, expire_snapshots, delete_snapshot) of 2-4 real threads "
             "run under a cooperative scheduler with a gate before every storage operation (local) / S3 request (CAS "
             "double); all schedules with <=k preemptions are enumerated for 2 committers (k=1 all pairs, k=2 key pairs "
             "in quick; k=2 all, k=3 key pairs in thorough), 3-4 committers under PCT/random. Every successful pointer "
             "write is attributed to its actor and the published metadata must differ from the immediately preceding "
             "pointer target by exactly that actor's operation; acked <=> exactly one flip, raised <=> none; final "
             "chain linear with increasing sequence numbers. Thorough adds 4-8 OS processes x 25 commits with injected "
             "L1 delays (final-state oracle).",
        note="Schedules beyond the preemption bound / PCT depth are not explored; S3 = strongly consistent double.",
    ),
    "C02": dict(
        category="exploration", design_ref="DESIGN.md §2 C02",
        technique="controlled scheduling of reader x writer threads + snapshot-interval oracle (each read equals a version current within its window; per-handle monotone)",
        text="7 read API variants x 6 writer kinds (incl. explicit rollback and a commit failed at the pointer write) are "
             "scheduled with gates at every storage op plus os.write/os.replace inside the writer's publish sequence; all "
             "<=1-preemption schedules for every pair (quick; <=2 in thorough and for key pairs), 2 readers x 1-3 writers "
             "under PCT/random. Ground truth rows of each version are taken by the independent reader right after each "
             "pointer flip; every read must equal a version current at some instant of its window and never move "
             "backwards on a handle; a read that raises with only writers active is a violation; every published version must equal "
             "the previous one plus one WHOLE transaction (atomic visibility), and a reader sharing the handle of a writer whose "
             "commit failed is scheduled against a committing second handle.",
        note="Pool threads of scan(parallel=n) run unscheduled within their parent's step.",
    ),
    "C10": dict(
        category="exploration", design_ref="DESIGN.md §2 C10",
        technique="input-space monitor: pointer byte grammar x histories with uncommitted metadata files x follow-up ops, state compared with the committed state seen by an independent reader",
        text="For 5 history shapes (incl. commits failed at the pointer write and equal-version committed/uncommitted "
             "files in both mtime orders) the pointer file is replaced by each element of a byte-level grammar; then "
             "load / create_table(other schema) / append / collect run and the table is reopened. Identity, schema, "
             "snapshot list, rows of every retained snapshot must equal the committed state (+ the append), and no "
             "never-committed snapshot may surface; a commit may never publish a version number below one already on storage; "
             "listing failures during open/create must not re-initialise; a reduced grammar also runs on the CAS-S3 double. "
             "Known design-level defects are reported as KNOWN-FINDING lines.",
        note="Committed state = last pointer target observed by the harness, read by the independent reader.",
    ),
    "C11": dict(
        category="exploration", design_ref="DESIGN.md §2 C11",
        technique="pre/post contract monitor around every append over an enumerated matrix of value classes, schema-argument variants, handle freshness and APIs",
        text="Every append (11 types x all value classes as one multi-append history; 13 schema-argument variants x "
             "schema id x fresh/reused handle x 2 APIs; 7 pre-built parquet footers) is wrapped in a contract checked "
             "by the independent reader: raise => snapshot list, reachable files and rows unchanged; accept => scan == "
             "model + new row value-exact up to the type's representation, and every column still answers ==/is_null "
             "filters correctly on fresh and reused handles, followed by further appends.",
        note="Text<->binary and raw-int->temporal coercions are counted, not judged.",
    ),
    "C14": dict(
        category="fault_enumeration", design_ref="DESIGN.md §2 C14",
        technique="enumerated damage (delete/truncate/flip/garbage/swap/transient) of every file reachable from the current snapshot x 11 read API variants, oracle 'exception or exactly the undamaged answer'",
        text="Every file reachable from the current snapshot (metadata JSON, manifest list, manifests incl. a rewritten "
             "one, data files) and the pointer is deleted, truncated at structural offsets, byte-flipped, replaced by "
             "garbage / '{}' / a sibling, or made to fail transiently on first read; each of 11 read API/option "
             "variants runs through a fresh handle. The outcome must be an exception or exactly the undamaged answer; "
             "with checksum verification on, any byte change of a data file must raise.",
        note="Damage that an independent parser still reads as different valid content is counted, not judged.",
    ),
    "C05": dict(
        category="exploration", design_ref="DESIGN.md §2 C05",
        technique="history monitor: deletion set of each collect() vs reachable/in-flight sets computed by an independent reader, over table-location spellings",
        text="Generated operation histories (incl. open transactions, failed commits, ageing) are run against real "
             "tables under 15 local location spellings and 6 S3 prefix spellings; around every collection the set of "
             "files that disappeared is intersected with R (every file of every retained snapshot, by the independent "
             "reader) and F (files of open transactions); retained snapshots are re-read afterwards and planted old "
             "orphans must be gone. Histories are a seeded sample: exploration.",
        note="Trusts the independent reader's reachability computation and os.utime / virtual LastModified ageing.",
    ),
    "C07": dict(
        category="fault_enumeration", design_ref="DESIGN.md §2 C07",
        technique="enumerated fault injection at every L1 storage call of collect() + damage classes on every reachable metadata-plane file, with a before/after file-set oracle",
        text="A dry run measures the L1 calls of one collect() on a prepared table (5 snapshots, orphans, an open "
             "transaction with aged files, an in-commit manifest protected only by its marker); every call is failed "
             "once / persistently (OSError; transient and permanent S3 errors), every manifest list / manifest / the "
             "current metadata file is damaged in 5 ways, listings are made to return escaping paths and marker "
             "read/stat/delete/list are failed. Oracle: nothing reachable or in flight ever disappears; if the "
             "independent reader cannot parse a reachable file the collection must raise.",
        note="One scenario shape; single faults only. 'Raised after deleting only true orphans' is counted, not "
             "judged (the property's disjunction allows it).",
    ),
    "C09": dict(
        category="exploration", design_ref="DESIGN.md §2 C09",
        technique="history monitor: every retained snapshot re-read (files, hashes, rows, lookups by id / timestamp) after every step + online write-once monitor",
        text="At commit the model records each snapshot's file set, SHA-1 of every reachable file and row multiset; "
             "after every later step of generated histories (local and S3 double, real and coarse clocks) each "
             "retained snapshot is re-read by the independent reader and through snapshot_by_id / time_travel with "
             "5 probe timestamps per snapshot; overwriting an existing data or manifest file is flagged when it "
             "happens.",
        note="Timestamp lookup presumes non-decreasing timestamps (backwards clocks are exercised in C15 only).",
    ),
    "C15": dict(
        category="exploration", design_ref="DESIGN.md §2 C15",
        technique="invariant monitor over generated histories (independent metadata parser) + exhaustive enumeration of small snapshot forests through the real repointing function",
        text="(a) after every step of generated histories under real / coarse / frozen / backwards clocks the "
             "metadata JSON is parsed independently and the well-formedness predicate (current retained, parents are "
             "retained true ancestors, sequence numbers, snapshot log, entry inheritance, exact deletes, metadata "
             "log) is evaluated against the model's commit order; (b) every parent map over <=4 (quick) / <=5 "
             "(thorough) nodes x every kept subset is run through the real repoint function against a reference "
             "model - exhaustive for that space.",
        note="Commit order = order in which the independent reader first sees each snapshot.",
    ),
    "C12": dict(
        category="exploration", design_ref="DESIGN.md §2 C12",
        technique="differential runtime monitor: 16 scan API/option variants vs a Python SQL-3VL evaluator over generated tables and filters",
        text="Held-on-what-was-run: every generated (table, filter, projection) is executed through all 16 scan "
             "API/option variants of the real library and compared with an independent SQL three-valued "
             "evaluator over the rows an independent parquet reader sees; malformed filters must raise in every "
             "variant on empty and non-empty tables. Inputs are a seeded sample of an unbounded space, so this "
             "is exploration, not proof.",
        note="Trusts pyarrow's parquet decoding for ground-truth rows and Python's comparison semantics "
             "(IEEE NaN, code-point string order) as the meaning of SQL comparisons.",
    ),
    "C13": dict(
        category="exploration", design_ref="DESIGN.md §2 C13",
        technique="exhaustive small-domain oracle on the real pruning decision + pruned-vs-unpruned differential scans",
        text="The pruning decision of the real prune_files_by_bounds is checked exhaustively over a stated "
             "boundary domain (9 types x all value multisets of size <=3 incl. NULL/NaN x all operators x all "
             "literals), on bounds produced by the real write path and decoded by the real manifest reader; "
             "plus random multi-file tables comparing scans with pruning on and off, and a bounds round-trip "
             "oracle (value and Python type).",
        note="Ground truth 'some row matches' is Arrow's evaluation of the expression the scan itself applies.",
    ),
}

NOT_YET = {}


# what the seeded-change rounds 2 and 3 added to each check (appended to the level text)
ADDENDA = {
    "C01": "CAS-S3 cells also run with object-store 'weather' on one committer's first pointer PUT: refused (503), applied with a lost response, applied and answered 412 on the transport's retry.",
    "C02": "Seed tables start with a two-file manifest (partial deletes rewrite a manifest readers use); cells with a lost / 412-answered / refused pointer PUT on S3; cells with one transient I/O error on the READER's own access to the pointer while a writer is mid-commit.",
    "C03": "Object storage: the operation runs in its own thread against the S3 double and is parked for ever before its k-th request, for every k (no finally / rollback / lock release runs; the lock object lapses by lease), followed by the same reopen / append / collection oracle.",
    "C04": "Fault kind 'applied then answered 412' on conditional PUTs; OS-level enumeration: the i-th os.fsync / replace / write / open / remove / unlink made by the package raises EIO; scenario 'readd' (append_files of a file older snapshots still reference).",
    "C05": "Histories include pre-built files spelled './data/x', 'data//x', 'data/./x', 'data/sub/../x' and an open transaction holding two pre-built files with the same basename in two partition directories, and a live transaction re-registering the files of a dead one.",
    "C06": "Seed table starts with a two-file manifest; object-store cells: for every S3 request of a collection the transaction stages (or stages and commits) inside that request, under process time zones UTC, +9, -5, +5:45.",
    "C07": "The scenario contains an uncommitted metadata file of the current version, a two-file manifest and an open transaction with pre-built files in partition directories; damage classes include per-snapshot manifest-list fields nulled / emptied / removed in still-valid JSON; marker operations also fail with 'not found' (listed a moment ago).",
    "C08": "Cells with weather on the pointer PUT under a lock that excludes nobody; a thief that takes the lock over and releases it at once; cells where only the lock OBJECT grows old (the holder's clock shows no lapse); non-UTC process zones.",
    "C09": "Histories include a commit that loses an OCC race once, clocks that step back by an hour, 32 scripted shared-manifest expiry histories; the as-of-time oracle is the property's wording (most recently committed snapshot not newer than t).",
    "C10": "Pointer grammar includes non-ASCII digits and 5000-digit strings; histories with more than ten versions and with a long-lived handle whose in-memory state is stale; a table that never left version 0; after an append every metadata-log entry must name an existing file.",
    "C11": "Temporal values under non-UTC zones; exact fractions beyond float precision; a misspelt optional key in a record with as many keys as fields; two accepted pre-built files with the same basename in different directories.",
    "C12": "Signed zero in the value pools; 22 malformed-filter classes; order independence (the same 384 filters in 4 orders, each in a fresh process); the random differential also under non-UTC process zones.",
    "C13": "Cross literals include Decimal, float-width mismatches, strings and bytes; temporal domains include values inside a DST gap; tables written under one process zone and read under another; fallback truth = the library's own scan with pruning switched off; 3500-row files with NaN / NULL / extremes in one writer batch only.",
    "C14": "TOCTOU damage (the file is replaced between two accesses of one read call); one bookkeeping field of one manifest-list / manifest entry changed in valid Avro; checksum verification switched on through the environment in every accepted spelling; pointer and all metadata files deleted under an open handle.",
    "C15": "Histories include lost OCC races, stepped-back clocks, a file registered by two commits before its delete, a bare string passed to delete_files, two delete_files calls in one transaction.",
    "C16": "Further traced lives: a short write, a refused rename (EXDEV), a failing DIRECTORY fsync per directory, two threads on one Table object with one suspended inside a marker write while the other commits, and a life whose metadata files are larger than 4 MiB.",
    "C17": "True absolute spellings lexically inside the root that leave it through a symlink (also as tampered manifest entries); whole commits and collections after '.locks', 'metadata/inflight', 'data', ... became symlinks.",
    "C18": "Creator whose create-if-absent pointer PUT is applied and then answered 412; the S3 double pages every listing by 5 keys.",
    "C19": "Descriptor-ownership monitor on the local cells (a lock object may only close a descriptor it opened); one transient ENOLCK / EOPNOTSUPP / EINTR on a contended flock; fork() scenarios with a raw flock probe; renewal-outage cells; 2560 sequential lock histories against a lease model fed by the writes the store applies; non-UTC process zones.",
    "C20": "Bucket prefixes that re-occur inside table-relative keys; all ordered triples of single-key operations; transient faults while the response body is read; the bare '403' code of HEAD requests among the permanent errors.",
}


def main() -> None:
    props = [json.loads(l) for l in (VERIF / "properties.jsonl").read_text().splitlines() if l.strip()]
    checks = []
    for p in props:
        pid = p["id"]
        c = CHECKS.get(pid)
        if not c:
            continue
        checks.append({
            "property_id": pid,
            "quick_cmd": f"bin/check {pid} quick",
            "thorough_cmd": f"bin/check {pid} thorough",
            "evidence_file": f"evidence/{pid}.json",
            "replay_cmd_template": f"bin/check {pid} quick --replay {{path}}",
            "engine": "vf",
            "level_claimed": {"category": c["category"],
                              "text": c["text"] + (" Added after seeded rounds 2-3: " + ADDENDA[pid] if pid in ADDENDA else ""),
                              "design_ref": c["design_ref"]},
            "level_note": c["note"],
            "technique": c["technique"],
        })
    na = [{"property_id": p["id"],
           "reason": NOT_YET.get(p["id"], "check not built yet in this session (work in progress; see DESIGN.md for the planned monitor)")}
          for p in props if p["id"] not in CHECKS]
    manifest = {
        "version": 1,
        "setup_cmd": "bin/setup",
        "hooks": {
            "guard": "DATASHARD_VERIF",
            "enable": "no source hooks exist: all instrumentation attaches at run time inside the harness "
                      "process (class-attribute wrappers, module-global proxies, in-memory S3 double, strace); "
                      "checks import datashard from /repo/src (current working tree)",
            "baseline_off_cmd": "cd /repo && /venv/bin/python -m pytest -ra -q -p no:cacheprovider --timeout=900 --continue-on-collection-errors",
            "source_commits": [],
            "add_only": True,
        },
        "engines": [
            {"name": "vf", "path": "vf/", "serves_properties": sorted(CHECKS),
             "kind_free_text": "runtime-monitoring framework: cooperative scheduler over real threads (sched.py), "
                               "in-memory S3 double (fakes3.py), L1/L2 interposition and fault plans (interpose.py), "
                               "independent reader (reader.py), seeded generators (gen.py), strace driver, "
                               "sharded subprocess execution + evidence/known-finding handling (common.py)"},
        ],
        "checks": checks,
        "not_applicable": na,
        "notes": "Exit codes: 0 held on everything observed / only known findings; 1 violation "
                 "(VIOLATION property=<id> replay=<path>); 2 inconclusive (a deciding monitor was not reached).",
    }
    (VERIF / "MANIFEST.json").write_text(json.dumps(manifest, indent=1) + "\n")
    print(f"MANIFEST.json: {len(checks)} checks, {len(na)} not_applicable")


if __name__ == "__main__":
    main()
