#!/usr/bin/env python3
"""Regenerates /verif/MANIFEST.json from the table below (single source of truth)."""
import json
import os
from pathlib import Path

VERIF = Path(__file__).resolve().parents[1]

CHECKS = {
    "C12": dict(
        category="exploration", design_ref="DESIGN.md §2 C12",
        technique="differential runtime monitor: 16 scan API/option variants vs a Python SQL-3VL evaluator over generated tables and filters",
        text="Held-on-what-was-run: every generated (table, filter, projection) is executed through all 16 scan "
             "API/option variants of the real library and compared with an independent SQL three-valued "
             "evaluator over the rows an independent parquet reader sees; malformed filters must raise in every "
             "variant on empty and non-empty tables. Inputs are a seeded sample of an unbounded space, so this "
             "is exploration, not proof.",
        note="Trusts pyarrow's parquet decoding for ground-truth rows and Python's comparison semantics "
             "(IEEE NaN, code-point string order) as the meaning of SQL comparisons.",
    ),
    "C13": dict(
        category="exploration", design_ref="DESIGN.md §2 C13",
        technique="exhaustive small-domain oracle on the real pruning decision + pruned-vs-unpruned differential scans",
        text="The pruning decision of the real prune_files_by_bounds is checked exhaustively over a stated "
             "boundary domain (9 types x all value multisets of size <=3 incl. NULL/NaN x all operators x all "
             "literals), on bounds produced by the real write path and decoded by the real manifest reader; "
             "plus random multi-file tables comparing scans with pruning on and off, and a bounds round-trip "
             "oracle (value and Python type).",
        note="Ground truth 'some row matches' is Arrow's evaluation of the expression the scan itself applies.",
    ),
}

NOT_YET = {}


def main() -> None:
    props = [json.loads(l) for l in (VERIF / "properties.jsonl").read_text().splitlines() if l.strip()]
    checks = []
    for p in props:
        pid = p["id"]
        c = CHECKS.get(pid)
        if not c:
            continue
        checks.append({
            "property_id": pid,
            "quick_cmd": f"bin/check {pid} quick",
            "thorough_cmd": f"bin/check {pid} thorough",
            "evidence_file": f"evidence/{pid}.json",
            "replay_cmd_template": f"bin/check {pid} quick --replay {{path}}",
            "engine": "vf",
            "level_claimed": {"category": c["category"], "text": c["text"], "design_ref": c["design_ref"]},
            "level_note": c["note"],
            "technique": c["technique"],
        })
    na = [{"property_id": p["id"],
           "reason": NOT_YET.get(p["id"], "check not built yet in this session (work in progress; see DESIGN.md for the planned monitor)")}
          for p in props if p["id"] not in CHECKS]
    manifest = {
        "version": 1,
        "setup_cmd": "bin/setup",
        "hooks": {
            "guard": "DATASHARD_VERIF",
            "enable": "no source hooks exist: all instrumentation attaches at run time inside the harness "
                      "process (class-attribute wrappers, module-global proxies, in-memory S3 double, strace); "
                      "checks import datashard from /repo/src (current working tree)",
            "baseline_off_cmd": "cd /repo && /venv/bin/python -m pytest -ra -q -p no:cacheprovider --timeout=900 --continue-on-collection-errors",
            "source_commits": [],
            "add_only": True,
        },
        "engines": [
            {"name": "vf", "path": "vf/", "serves_properties": sorted(CHECKS),
             "kind_free_text": "runtime-monitoring framework: cooperative scheduler over real threads (sched.py), "
                               "in-memory S3 double (fakes3.py), L1/L2 interposition and fault plans (interpose.py), "
                               "independent reader (reader.py), seeded generators (gen.py), strace driver, "
                               "sharded subprocess execution + evidence/known-finding handling (common.py)"},
        ],
        "checks": checks,
        "not_applicable": na,
        "notes": "Exit codes: 0 held on everything observed / only known findings; 1 violation "
                 "(VIOLATION property=<id> replay=<path>); 2 inconclusive (a deciding monitor was not reached).",
    }
    (VERIF / "MANIFEST.json").write_text(json.dumps(manifest, indent=1) + "\n")
    print(f"MANIFEST.json: {len(checks)} checks, {len(na)} not_applicable")


if __name__ == "__main__":
    main()
