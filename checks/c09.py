"""C09 - retained snapshots are immutable and time travel is stable.

History monitor: at commit the model records each snapshot's file set, per-file
hashes and row multiset; after EVERY later step every retained snapshot is
re-read by the independent reader and through the library's lookup APIs.  An
online write-once monitor flags any overwrite of an existing data / manifest
file at the moment it happens.
"""
from __future__ import annotations

import hashlib
from typing import Any, Dict, List, Optional

from vf import history, reader
from vf.common import CaseResult, Check, Scratch, rng_for
from vf.fakes3 import FakeS3Store, S3Env
from vf.interpose import GlobalPatch, Interposer, patch_datetime

ALPHABET = ["append", "append", "append", "multi", "raced", "delete", "delete", "delete", "delete_append", "readd", "readd", "prebuilt", "prebuilt", "expire",
            "delsnap", "delsnap", "fail_commit", "gc0", "gc", "age", "reopen", "retention",
            "open_tx", "commit_tx", "rollback_tx"]


class C09(Check):
    pid = "C09"
    level = "exploration"
    rule = ("histories of <=15 ops over {append, multi-append txn, delete (manifest rewrite), delete+append, expire, "
            "delete-snapshot, failed commit, GC with grace 0/default/large, file ageing, open/commit/rollback of "
            "long transactions, retention property, reopen} on local storage and on the S3 double, real and coarse "
            "clocks; after every step every retained snapshot is re-read (files, SHA-1 of every reachable file, "
            "rows), looked up by id and by 5 timestamps; non-trivial = a step at which >=2 snapshots are retained "
            "and a re-read happened after a mutating op; distinct by (backend, clock, op, #retained)")
    assumptions = [
        "time-travel ties (equal millisecond timestamps) must resolve to the most recently committed snapshot",
        "under clocks that step backwards the expected answer is taken literally from the property: the most recently "
        "COMMITTED retained snapshot whose timestamp is not newer than the requested time",
        "lookup by id may legitimately show a repointed parent after expiry; parent is not compared",
    ]
    require = {"snapshot_rereads": 500, "timestamp_lookups": 500, "id_lookups": 200,
               "delete_current_checked": 3, "writes_monitored": 100, "readds_of_referenced_file": 3}

    def gen_cases(self, tier: str, seed: int):
        n = 160 if tier == "quick" else 12000
        for i in range(n):
            yield {"i": i, "seed": seed, "backend": "s3" if i % 4 == 3 else "local",
                   "clock": ["real", "coarse", "real", "stepback", "coarse", "backwards"][i % 6]}
        # scripted: manifests shared by several snapshots, dropped or rewritten by a delete, then every expiry cutoff
        # (metadata-only and combined with an append), then a collection - every retained snapshot is re-read each step
        k = 0
        for first in (("append", 2), ("multi", [1, 1])):
            for dele in (("delete", 1, "lead"), ("delete_append", 1)):
                for which in (0, 1, 2, 3):
                    for mode in ("plain", "with_append"):
                        ops = [first, ("append", 1), ("append", 1), dele, ("append", 1), ("expire", which, 1, mode),
                               ("gc", 0), ("append", 1), ("expire", "all", 0, "plain"), ("gc", 0)]
                        yield {"i": 100000 + k, "seed": seed, "backend": "s3" if k % 5 == 4 else "local", "clock": "real",
                               "script": [list(o) for o in ops]}
                        k += 1

    def run_case(self, case: Any, res: CaseResult, tier: str) -> None:
        rng = rng_for(case["seed"], "c09", case["i"])
        ops = history.gen_ops(rng, rng.randint(6, 15), ALPHABET)
        if case.get("script"):
            ops = [tuple(o) for o in case["script"]]
        ip = Interposer().install()
        clock = history.Clock(case["clock"], rng)
        overwrites: List[str] = []

        try:
            with Scratch("c09") as d, GlobalPatch() as gp:
                if case["clock"] != "real":
                    patch_datetime(gp, clock.now)
                if case["backend"] == "s3":
                    store = FakeS3Store()

                    def s3_put(req: Any) -> None:
                        if req.op == "PUT" and ("/data/" in req.key or "/metadata/manifests/" in req.key):
                            res.count("writes_monitored")
                            if (req.bucket, req.key) in store.objects:
                                overwrites.append(req.key)

                    store.before.append(s3_put)
                    with S3Env(store) as env:
                        h = history.History("wh/t9", rng, backend="s3", store=store, s3env=env,
                                            table_path="wh/t9", ip=ip)
                        self._drive(h, ops, res, case, overwrites)
                else:
                    root = str(d / "t")

                    def l1_write(op: Any) -> None:
                        if op.phase != "before":
                            return
                        if op.name == "local.write_file" and op.path and \
                                (op.path.startswith("data/") or op.path.startswith("metadata/manifests/")):
                            res.count("writes_monitored")
                            if op.obj.exists(op.path):
                                overwrites.append(op.path)
                        if op.name == "data.write_data_file":
                            p = op.kwargs.get("file_path") or (op.args[0] if op.args else None)
                            res.count("writes_monitored")
                            if p and op.obj.storage.exists(p):
                                overwrites.append(p)

                    ip.before.append(l1_write)
                    h = history.History(root, rng, ip=ip)
                    self._drive(h, ops, res, case, overwrites)
        finally:
            ip.uninstall()

    def _drive(self, h: history.History, ops: List[Any], res: CaseResult, case: Any, overwrites: List[str]) -> None:
        for step, op in enumerate(ops):
            before = h.last_view
            out = h.apply(op)
            if out.get("raced") and out["ok"]:
                res.count("commits_retried_after_lost_race")
            tv = h.observe(op, out["ok"])
            res.evals += 1
            if op[0] == "readd" and out.get("readded"):
                res.count("readds_of_referenced_file")
            wit = {"backend": case["backend"], "clock": case["clock"], "history": h.log[-18:],
                   "op": list(map(str, op)), "outcome": out}
            if overwrites:
                res.violation("write-once-overwrite", f"existing file(s) rewritten in place: {overwrites[:3]}", wit)
                return
            if tv.meta is None:
                res.violation("table-unreadable", f"independent reader cannot read the table after {op}: {tv.error}", wit)
                return
            b = h.blobs()
            retained = tv.snapshots
            for sv in retained:
                sm = h.snaps[sv.id]
                res.count("snapshot_rereads")
                if sv.error is not None:
                    res.violation(f"retained-unreadable:{op[0]}", f"retained snapshot {sv.id} unreadable after {op}: {sv.error}", wit)
                    return
                if sorted(sv.files) != sorted(sm.files) or sv.rows != sm.rows or sv.manifest_list != h_ml(sm, sv):
                    res.violation(f"retained-changed:{op[0]}", f"snapshot {sv.id} changed after {op}: files "
                                  f"{len(sm.files)}->{len(sv.files)}, rows {len(sm.rows or [])}->{len(sv.rows or [])}", wit)
                    return
                for p, hsh in sm.hashes.items():
                    raw = b.get(p)
                    if raw is None or hashlib.sha1(raw).hexdigest() != hsh:
                        res.violation(f"retained-file-bytes-changed:{op[0]}",
                                      f"file {p} of retained snapshot {sv.id} changed or vanished after {op}", wit)
                        return
                # lookup by id through the library
                try:
                    got = h.table.snapshot_by_id(sv.id)
                except Exception as e:  # noqa
                    res.violation("lookup-by-id-raises", f"snapshot_by_id({sv.id}) raised {type(e).__name__}: {e}", wit)
                    return
                res.count("id_lookups")
                if got is None or (got.snapshot_id, got.timestamp_ms, got.manifest_list, got.sequence_number) != \
                        (sm.id, sm.ts, sv.manifest_list, sm.seq):
                    res.violation("lookup-by-id-changed", f"snapshot_by_id({sv.id}) returned {got}", wit)
                    return
            # lookup by timestamp
            if retained:
                tss = sorted({s.ts for s in retained})
                probes = set()
                for t in tss:
                    probes.update((t - 1, t, t + 1))
                probes.update((tss[0] - 1000, tss[-1] + 1000))
                for tau in sorted(probes):
                    cands = [s for s in retained if s.ts <= tau]
                    exp = None
                    if cands:
                        # the property's wording: the MOST RECENTLY COMMITTED retained snapshot not newer than tau
                        # (with timestamps that never decrease this is also the one with the largest timestamp)
                        exp = max(cands, key=lambda s: h.snaps[s.id].order).id
                    try:
                        g = h.table.time_travel(timestamp=tau)
                    except Exception as e:  # noqa
                        res.violation("time-travel-raises", f"time_travel(timestamp={tau}) raised {type(e).__name__}: {e}", wit)
                        return
                    res.count("timestamp_lookups")
                    gid = g.snapshot_id if g is not None else None
                    if gid != exp:
                        ties = sum(1 for s in cands if s.ts == max(c.ts for c in cands)) if cands else 0
                        regress = any(h.snaps[a.id].order < h.snaps[b.id].order and a.ts > b.ts for a in retained for b in retained)
                        res.violation(f"time-travel-wrong:{'tie' if ties > 1 else 'clock-regression' if regress else 'notie'}",
                                      f"time_travel(timestamp={tau}) -> {gid}, expected {exp} "
                                      f"(retained ts={[(s.id, s.ts) for s in retained]})", wit)
                        return
            # deleting the current snapshot repoints to the most recently committed survivor
            if op[0] == "delsnap" and out["ok"] and out.get("was_current") and out.get("returned"):
                res.count("delete_current_checked")
                exp_cur = max((s.id for s in retained), key=lambda i: h.snaps[i].order) if retained else None
                if tv.current_id != exp_cur:
                    res.violation("delete-current-repoint", f"after deleting the current snapshot the table points at "
                                  f"{tv.current_id}, most recently committed survivor is {exp_cur}", wit)
                    return
            if len(retained) >= 2 and op[0] not in ("reopen", "age"):
                res.key([case["backend"], case["clock"], op[0], min(len(retained), 6), out["ok"]])
        if len(res.samples) < 1:
            res.sample({"backend": case["backend"], "clock": case["clock"],
                        "ops": [list(map(str, o)) for o in ops],
                        "snapshots_committed": len(h.order),
                        "retained_at_end": len(h.last_view.snapshots) if h.last_view else 0})


def h_ml(sm: Any, sv: Any) -> str:
    # manifest list path recorded at commit (first element of paths)
    return sv.manifest_list if reader.norm(sv.manifest_list) == sm.paths[0] else "<changed>"


if __name__ == "__main__":
    raise SystemExit(C09().main())
