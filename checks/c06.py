"""C06 - garbage collection is safe against concurrently committing transactions.

One collector and 1-2 transactions run under the cooperative scheduler.  Data files
(and anything else a transaction wrote before the collection started) are aged beyond
the grace period with os.utime, so the grace period alone does not protect them: only
reachability and in-flight markers do.  Oracle when all actors are done: every file of
every snapshot in the final metadata exists and parses, acked rows are readable.
"""
from __future__ import annotations

import os
import time
from typing import Any, Dict, List, Optional, Sequence, Tuple

from vf import reader, tables
from vf.common import CaseResult, Check, Scratch, rng_for
from vf.interpose import Interposer
from vf.scenario import HINT, ClientLog, Template
from vf.sched import PCT, RandomWalk, Scheduler, SchedEnv, Scripted, adopt, explore_bounded

GRACE_MS = 3600 * 1000
TXKINDS = ["commit_open", "append", "multi", "delete_append", "failing_commit", "prebuilt"]


def build_seed(path: str) -> None:
    import datashard as ds

    t = ds.create_table(path, schema=tables.std_schema())
    with t.new_transaction() as tx:          # ONE manifest naming two data files: deleting one of them
        tx.append_data(tables.rows([1]))     # makes the delete transaction REWRITE that manifest (a file the
        tx.append_data(tables.rows([2]))     # collector must not take between the rewrite and the commit)
        tx.commit()
    t.append_records(tables.rows([3]))
    # an old true orphan so that every collection has something to delete
    os.makedirs(os.path.join(path, "data"), exist_ok=True)
    with open(os.path.join(path, "data", "orphan_old.parquet"), "wb") as f:
        f.write(b"orphan")
    tables.age_tree(path, 7200, only=["data", "metadata/manifests"])


class Exec:
    def __init__(self, case: Dict[str, Any], tmpl: Template, ip: Interposer):
        self.case = case
        self.tmpl = tmpl
        self.ip = ip

    def run(self, strategy: Any, seed: int = 0) -> Dict[str, Any]:
        import datashard as ds
        from datashard.garbage_collector import GarbageCollector

        case = self.case
        inst = self.tmpl.clone()
        with inst:
            root = inst.root
            sched = Scheduler(strategy, seed=seed, max_steps=3000)
            clog = ClientLog(sched)
            state = {"gc_started": False}
            deleted: List[Tuple[int, str, str]] = []
            aged: List[str] = []

            def age(rel: str) -> None:
                p = os.path.join(root, rel.lstrip("/"))
                if os.path.exists(p):
                    t = time.time() - 7200
                    os.utime(p, (t, t))
                    aged.append(rel)

            def after(op: Any) -> None:
                if op.phase != "after" or op.exc is not None:
                    return
                me = sched.me()
                who = me.name if me else None
                if op.name == "local.delete_file":
                    deleted.append((sched.nstep, who or "-", op.path))
                if who is None or not who.startswith("T"):
                    # setup phase (before the scheduler runs): everything a transaction writes is old
                    if sched.active:
                        return
                if state["gc_started"] and case.get("age") != "always":
                    return
                if op.name == "data.write_data_file":
                    p = op.kwargs.get("file_path") or op.args[0]
                    age(p)
                elif op.name == "local.write_file" and op.path and op.path.startswith("metadata/manifests/"):
                    age(op.path)

            def before(op: Any) -> None:
                if op.phase != "before":
                    return
                me = sched.me()
                if me is None:
                    return
                if me.name == "G":
                    state["gc_started"] = True
                elif me.name.startswith("T") and op.name == "local.write_file" and op.path == HINT \
                        and case["txs"][int(me.name[1:])] == "failing_commit":
                    raise OSError("injected: pointer write failed")

            self.ip.after.append(after)
            self.ip.before.append(before)
            live_txs: List[Any] = []
            live_viol: List[Tuple[str, str]] = []
            import datashard.transaction as trm
            orig_begin = trm.Transaction.begin

            def begin(self_: Any) -> Any:
                r = orig_begin(self_)
                live_txs.append(self_)
                return r

            trm.Transaction.begin = begin  # type: ignore

            def gc_delete_monitor(op: Any) -> None:
                # the collector must never delete a file registered by a transaction that is still live
                if op.phase == "before" and op.name == "local.delete_file":
                    me = sched.me()
                    if me is not None and me.name == "G" and op.path:
                        p = op.path.lstrip("/")
                        for tx in live_txs:
                            if tx.is_active() and p in [w.lstrip("/") for w in tx._written_files]:
                                live_viol.append(("gc-deleted-live-transaction-file",
                                                  f"collector deletes {p} which a still-active transaction has written"))

            self.ip.before.append(gc_delete_monitor)
            try:
                handles = []
                for i, kind in enumerate(case["txs"]):
                    t = ds.load_table(inst.table_path)
                    handles.append(t)
                    name = f"T{i}"
                    base = 1000 * (i + 1)
                    if kind == "commit_open":
                        tx = t.new_transaction().begin()
                        tx.append_data(tables.rows([base + 1, base + 2]))      # written + aged before GC starts
                        fn = tx.commit
                        ids = [base + 1, base + 2]
                    elif kind == "prebuilt":
                        # a pre-built, already old parquet file appended with append_files()
                        import pyarrow as pa
                        import pyarrow.parquet as pq
                        from datashard.data_structures import DataFile, FileFormat

                        ids = [base + 1, base + 2]
                        rel = f"data/prebuilt_{i}.parquet"
                        fp = os.path.join(root, rel)
                        pq.write_table(pa.Table.from_pylist(tables.rows(ids), schema=pa.schema(
                            [pa.field("id", pa.int64(), nullable=False), pa.field("v", pa.string())])), fp)
                        told = time.time() - 7200
                        os.utime(fp, (told, told))
                        tx = t.new_transaction().begin()
                        tx.append_files([DataFile(file_path="/" + rel, file_format=FileFormat.PARQUET, partition_values={},
                                                  record_count=2, file_size_in_bytes=os.path.getsize(fp))])
                        fn = tx.commit
                    elif kind in ("append", "failing_commit"):
                        ids = [base + 1]
                        fn = (lambda t=t, ids=ids: t.append_records(tables.rows(ids)))
                    elif kind == "multi":
                        ids = [base + 1, base + 2]

                        def fn(t: Any = t, ids: List[int] = ids) -> Any:
                            with t.new_transaction() as tx:
                                tx.append_data(tables.rows(ids[:1]))
                                tx.append_data(tables.rows(ids[1:]))
                                return tx.commit()
                    else:  # delete_append: rewrites a manifest
                        ids = [base + 1]
                        victim = tables.current_files(t)[0]

                        def fn(t: Any = t, ids: List[int] = ids, victim: str = victim) -> Any:
                            with t.new_transaction() as tx:
                                tx.delete_files([victim])
                                tx.append_data(tables.rows(ids))
                                return tx.commit()
                    sched.spawn(name, clog.wrap(name, kind, fn, ids=ids))
                tg = ds.load_table(inst.table_path)
                handles.append(tg)
                gc = GarbageCollector(tg.table_path, tg.metadata_manager, tg.file_manager)
                sched.spawn("G", clog.wrap("G", "collect", lambda: gc.collect(GRACE_MS)))
                adopt(sched, *handles)
                with SchedEnv(sched, self.ip, None):
                    outcome = sched.run()
            finally:
                self.ip.after.remove(after)
                self.ip.before.remove(before)
                self.ip.before.remove(gc_delete_monitor)
                trm.Transaction.begin = orig_begin  # type: ignore
            viol: List[Tuple[str, str]] = list(live_viol[:1])
            tv = reader.read_table(inst.blobs())
            if outcome == "ok":
                if tv.meta is None:
                    viol.append(("table-unreadable", f"final table unreadable: {tv.error}"))
                else:
                    for sv in tv.snapshots:
                        if sv.error is not None:
                            culprit = [d for d in deleted if d[2] and sv.error.endswith(d[2].lstrip("/"))]
                            who = culprit[0][1] if culprit else "?"
                            viol.append((f"committed-file-deleted:by-{'collector' if who == 'G' else 'transaction' if who != '?' else 'unknown'}",
                                         f"snapshot {sv.id} in the final metadata is unreadable: {sv.error}; deletions: "
                                         f"{[(s, w, p) for s, w, p in deleted][:6]}"))
                            break
                    else:
                        rows = tv.current_rows()
                        for e in clog.events:
                            if e["actor"].startswith("T") and e["outcome"] == "acked":
                                for r in reader.canon_rows(tables.rows(e["ids"])):
                                    if r not in rows:
                                        viol.append(("acked-rows-missing", f"{e['actor']} acked but row {r} is not in the final table"))
                                        break
            gc_deleted = [p for _s, w, p in deleted if w == "G"]
            return {"outcome": outcome, "viol": viol, "trace_key": sched.trace_key(), "steps": sched.nstep,
                    "events": clog.events, "deleted": deleted, "gc_deleted": gc_deleted, "aged": aged,
                    "trace": sched.trace_names(),
                    "gc_event": next((e for e in clog.events if e["actor"] == "G"), None)}


def build_seed_s3(path: str) -> None:
    import datashard as ds

    t = ds.create_table(path, schema=tables.std_schema())
    with t.new_transaction() as tx:
        tx.append_data(tables.rows([1]))
        tx.append_data(tables.rows([2]))
        tx.commit()
    t.append_records(tables.rows([3]))


def s3_nested(tmpl: Template, txkind: str, idx: int, whole: bool = False) -> Dict[str, Any]:
    """Object-store variant without the scheduler: the transaction stages its files inside the
    collector's idx-th S3 request (after whatever the collector has read so far) and commits when
    the collection is over.  Everything older is aged 2 h; the staged files are fresh, so only the
    grace period (1 h) and the markers protect them.  Run under several process time zones: object
    ages are computed from the store's UTC LastModified."""
    import datashard as ds
    from datashard.garbage_collector import GarbageCollector

    inst = tmpl.clone()
    with inst:
        store = inst.store
        pre = f"{inst.table_path}/"
        store.put_object(Bucket="bkt", Key=pre + "data/orphan_old.parquet", Body=b"orphan")
        for k in list(store.objects):
            store.set_age(k[0], k[1], 7200)
        t = ds.load_table(inst.table_path)
        tg = ds.load_table(inst.table_path)
        victim = tables.current_files(t)[0]
        gc = GarbageCollector(tg.table_path, tg.metadata_manager, tg.file_manager)
        st: Dict[str, Any] = {"i": -1, "busy": False, "tx": None, "at": None}

        def stage() -> None:
            tx = t.new_transaction().begin()
            if txkind == "delete_append":
                tx.delete_files([victim])
            tx.append_data(tables.rows([101]))
            if txkind == "multi":
                tx.append_data(tables.rows([102]))
            st["tx"] = tx
            if whole:      # the whole transaction, commit included, happens inside this collector request
                try:
                    tx.commit()
                    st["commit"] = "acked"
                except Exception as e:  # noqa
                    st["commit"] = f"raised {type(e).__name__}"

        def before(req: Any) -> None:
            if st["busy"]:
                return
            st["i"] += 1
            if st["i"] == idx:
                st["busy"] = True
                st["at"] = req.brief()
                try:
                    stage()
                finally:
                    st["busy"] = False

        store.before.append(before)
        gc_out: Tuple[Any, ...]
        try:
            try:
                gc_out = ("returned", gc.collect(GRACE_MS))
            except Exception as e:  # noqa
                gc_out = ("raised", type(e).__name__, str(e)[:160])
        finally:
            store.before.remove(before)
        deleted = [r.key[len(pre):] for r in store.log if r.op == "DELETE" and r.key.startswith(pre)] if store.keep_log else []
        if st["tx"] is None:
            return {"reached": False, "nreq": st["i"] + 1}
        viol: List[Tuple[str, str]] = []
        try:
            if not whole:
                st["tx"].commit()
                st["commit"] = "acked"
        except Exception as e:  # noqa
            st["commit"] = f"raised {type(e).__name__}"
        if st["commit"] != "acked":
            return {"reached": True, "at": st["at"], "viol": viol, "commit": st["commit"], "gc": gc_out, "deleted": deleted}
        tv = reader.read_table(inst.blobs())
        if tv.meta is None:
            viol.append(("table-unreadable:s3", f"final table unreadable: {tv.error}"))
        else:
            bad = [sv for sv in tv.snapshots if sv.error]
            if bad:
                viol.append(("committed-file-deleted:s3-collector", f"snapshot {bad[0].id} unreadable after the commit: {bad[0].error}; "
                             f"collector deletions: {deleted[:6]}"))
            elif reader.canon_rows(tables.rows([101]))[0] not in tv.current_rows():
                viol.append(("acked-rows-missing:s3", "the committed row is not in the final table"))
        return {"reached": True, "at": st["at"], "viol": viol, "commit": "acked", "gc": gc_out, "deleted": deleted}


class C06(Check):
    pid = "C06"
    level = "exploration"
    rule = ("1 collector (grace 1 h) x 1 transaction out of {commit of a transaction whose aged data files were written "
            "before the collection started, append, multi-append, delete+append (manifest rewrite), commit failing at the "
            "pointer write}: ALL schedules with <=k context switches at L1-op granularity (k=1 all kinds, k=2 for "
            "commit_open/append/delete_append in quick; k=2 all in thorough); 1 collector x 2 transactions (one forcing "
            "the other to retry) under PCT/random. Everything a transaction writes before the collector's first storage "
            "call is aged 2 h (> grace). non-trivial = execution where the collector ran between the transaction's first "
            "and last step and deleted >=1 file; distinct = gate-level trace. Object store: for every S3 request of a collection, "
            "the transaction stages its files inside that request and commits there or after the run, under process time zones "
            "{UTC, +9, -5, +5:45}")
    assumptions = [
        "files written after the collection started are left fresh (the property's proviso: grace > run duration)",
        "scheduler-driven cells use the local backend; the object-store cells (s3_nested) place the transaction's staging "
        "inside each collector request instead of exploring schedules",
    ]
    require = {"executions_ok": 200, "gc_deleted_something": 100, "interleaved_executions": 100}
    worker_timeout_s = {"quick": 1500, "thorough": 7200}

    def gen_cases(self, tier: str, seed: int):
        for kind in TXKINDS:
            yield {"mode": "dfs", "txs": [kind], "k": 1, "shard": 0, "nshards": 1}
        k2 = ["commit_open", "append", "delete_append", "prebuilt"] if tier == "quick" else TXKINDS
        for kind in k2:
            for sh in range(8):
                yield {"mode": "dfs", "txs": [kind], "k": 2, "shard": sh, "nshards": 8}
        for pair in ([["commit_open", "append"]] if tier == "quick" else [["commit_open", "append"], ["commit_open", "delete_append"], ["multi", "append"]]):
            nsh = 16
            for sh in range(nsh):
                yield {"mode": "dfs", "txs": pair, "k": 1, "shard": sh, "nshards": nsh, "max_runs": 400 if tier == "quick" else 20000}
        if tier == "thorough":
            for kind in ["commit_open", "delete_append"]:
                for sh in range(32):
                    yield {"mode": "dfs", "txs": [kind], "k": 3, "shard": sh, "nshards": 32, "max_runs": 4000}
        for tz in ("UTC0", "JST-9", "EST5", "NPT-5:45"):
            for kind in (["append", "delete_append"] if tier == "quick" else ["append", "multi", "delete_append"]):
                for whole in (False, True):
                    yield {"mode": "s3_nested", "txs": [kind], "tz": tz, "whole": whole}
        nrand = 40 if tier == "quick" else 500
        for i in range(nrand):
            rng = rng_for(seed, "c06r", i)
            yield {"mode": rng.choice(["pct", "random"]), "txs": [rng.choice(TXKINDS), rng.choice(TXKINDS[:4] + ["prebuilt"])],
                   "seed": seed * 100000 + i, "runs": 6 if tier == "quick" else 12,
                   "age": rng.choice(["before_gc", "before_gc", "always"]) if False else "before_gc"}

    def _s3_nested(self, case: Any, res: CaseResult) -> None:
        old = os.environ.get("TZ")
        os.environ["TZ"] = case["tz"]
        time.tzset()
        try:
            with Scratch("c06s") as d:
                tmpl = Template("s3", str(d))
                tmpl.build(build_seed_s3)
                only = case.get("_replay_schedule")
                for idx in ([only] if only is not None else range(400)):
                    r = s3_nested(tmpl, case["txs"][0], idx, case.get("whole", False))
                    if not r["reached"]:
                        break
                    res.evals += 1
                    res.count("s3_nested_executions")
                    if r["commit"] == "acked":
                        res.count("executions_ok")
                    if r["deleted"]:
                        res.count("gc_deleted_something")
                        res.count("interleaved_executions")
                        res.key(["s3", case["txs"][0], case["tz"], case.get("whole", False), idx])
                    for sig, msg in r["viol"][:1]:
                        res.violation(sig, f"TZ={case['tz']} {case['txs'][0]} {'staged and committed' if case.get('whole') else 'staged'} inside collector request #{idx} ({r['at']}): {msg}",
                                      {"case": case, "schedule": idx, "gc": r["gc"], "deleted": r["deleted"]})
        finally:
            if old is None:
                os.environ.pop("TZ", None)
            else:
                os.environ["TZ"] = old
            time.tzset()

    def run_case(self, case: Any, res: CaseResult, tier: str) -> None:
        if case["mode"] == "s3_nested":
            return self._s3_nested(case, res)
        ip = Interposer().install()
        try:
            with Scratch("c06") as d:
                tmpl = Template("local", str(d))
                tmpl.build(build_seed)
                ex = Exec(case, tmpl, ip)
                if case.get("_replay_schedule") is not None and case["mode"] == "dfs":
                    dev = [tuple(x) for x in case["_replay_schedule"]]
                    strat = Scripted(dev)
                    self._record(case, dev, ex.run(strat), res)
                elif case["mode"] == "dfs":
                    def run_once(dev: Sequence[Tuple[int, str, int]]) -> Tuple[Scripted, Any]:
                        strat = Scripted(dev)
                        return strat, ex.run(strat)

                    explore_bounded(run_once, case["k"], (case["shard"], case["nshards"]),
                                    max_runs=case.get("max_runs", 100000),
                                    on_result=lambda dev, r: self._record(case, dev, r, res))
                else:
                    for j in range(case["runs"]):
                        s = f"{case['seed']}:{j}"
                        strat = PCT(s, depth=3, est_steps=150) if case["mode"] == "pct" else RandomWalk(s, stay=0.7)
                        self._record(case, [("strategy", case["mode"], s)], ex.run(strat, seed=j), res)
        finally:
            ip.uninstall()

    def _record(self, case: Any, dev: Any, r: Dict[str, Any], res: CaseResult) -> None:
        res.evals += 1
        if r["outcome"] != "ok":
            res.violation(f"no-progress:{r['outcome']}", f"scheduler outcome {r['outcome']} after {r['steps']} steps",
                          {"case": case, "schedule": [list(x) for x in dev], "events": r["events"], "trace_tail": r["trace"][-40:]})
            return
        res.count("executions_ok")
        names = r["trace"]
        tsteps = [i for i, n in enumerate(names) if n.startswith("T")]
        gsteps = [i for i, n in enumerate(names) if n == "G"]
        inter = bool(tsteps and gsteps and min(tsteps) < max(gsteps) and min(gsteps) < max(tsteps))
        if r["gc_deleted"]:
            res.count("gc_deleted_something")
        if inter:
            res.count("interleaved_executions")
        if inter and r["gc_deleted"]:
            res.key(r["trace_key"])
        ge = r["gc_event"]
        if ge and ge["outcome"] == "raised":
            res.count("collect_raised")
        for sig, msg in r["viol"][:2]:
            res.violation(sig, msg, {"case": case, "schedule": [list(x) for x in dev], "events": r["events"],
                                     "deleted": r["deleted"], "aged": r["aged"], "trace": r["trace"]})
        if not r["viol"] and inter and r["gc_deleted"] and len(res.samples) < 2:
            res.sample({"transactions": case["txs"], "schedule_deviations": [list(x) for x in dev],
                        "collector_deleted": r["gc_deleted"], "aged_before_gc": r["aged"],
                        "events": [{k: e[k] for k in ("actor", "op", "call", "ret", "outcome")} for e in r["events"]]})


if __name__ == "__main__":
    raise SystemExit(C06().main())
