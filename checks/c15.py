"""C15 - table metadata stays well-formed through every history.

(a) invariant monitor evaluated by the independent reader after every step of
    generated histories (real / coarse / backwards clocks);
(b) exhaustive enumeration of small snapshot forests x kept subsets through the
    real repoint_parents_to_surviving_ancestors, against a reference model.
"""
from __future__ import annotations

import itertools
from typing import Any, Dict, List, Optional, Set

from vf import history, reader
from vf.common import CaseResult, Check, Scratch, rng_for
from vf.interpose import GlobalPatch, Interposer, patch_datetime

ALPHABET = ["append", "append", "append", "multi", "raced", "raced", "delete", "delete", "prebuilt", "delete_append", "expire", "expire",
            "delsnap", "delsnap", "retention", "prevmax", "reopen", "fail_commit"]
DANGLING = 99


def model_repoint(parent_of: Dict[int, Any], kept: Set[int], node: int) -> Any:
    """nearest kept strict ancestor along the original chain, else 'none'."""
    p = parent_of[node]
    seen = set()
    while True:
        if p is None or p == -1:
            return "none"
        if p in kept:
            return p
        if p in seen or p not in parent_of:
            return "none"
        seen.add(p)
        p = parent_of[p]


def is_forest(parent_of: Dict[int, Any]) -> bool:
    for n in parent_of:
        seen = {n}
        p = parent_of[n]
        while p is not None and p != -1 and p in parent_of:
            if p in seen:
                return False
            seen.add(p)
            p = parent_of[p]
    return True


class C15(Check):
    pid = "C15"
    level = "exploration"
    rule = ("(a) histories of <=14 ops over {append, multi-append txn, delete, delete+append, expire (+append), "
            "delete-snapshot (current and others), retention-count and previous-versions-max properties (valid "
            "and invalid), failed commit, reopen} under real/coarse/backwards clocks; after every step the "
            "independent reader parses the metadata and the well-formedness predicate is evaluated against the "
            "model's commit order and true ancestry; non-trivial = a step after which >=2 snapshots are retained "
            "and at least one snapshot has been removed; distinct by (op, clock, #retained, removed?) "
            "(b) every parent map over <=N nodes (parents: None, -1, any node incl. self, dangling id) x every "
            "kept subset through the real repointing function (exhaustive for N=4 in quick, N=5 in thorough)")
    assumptions = [
        "commit order is the order in which the independent reader first sees each snapshot (one commit per step)",
        "for cyclic (non-forest) parent maps only termination and 'result is kept or nothing' are demanded",
    ]
    require = {"steps_checked": 200, "repoint_cases": 10000, "rewritten_entries_checked": 5,
               "steps_with_removed_snapshot": 20, "commits_retried_after_lost_race": 10, "double_registrations": 2}

    def gen_cases(self, tier: str, seed: int):
        n = 96 if tier == "quick" else 8000
        for i in range(n):
            yield {"kind": "hist", "i": i, "seed": seed,
                   "clock": ["real", "coarse", "backwards", "frozen", "stepback"][i % 5]}
        for stored in ("lead", "nolead"):
            for spelled in ("same", "lead", "nolead", "bare_string", "two_calls"):
                for registered in (1, 2):
                    yield {"kind": "delete_spelling", "stored": stored, "delete": spelled, "registered": registered}
        nmax = 4 if tier == "quick" else 5
        for n_nodes in range(1, nmax + 1):
            options = [None, -1, DANGLING] + list(range(n_nodes))
            total = len(options) ** n_nodes
            chunks = 1 if total < 3000 else 32
            for c in range(chunks):
                yield {"kind": "repoint", "n": n_nodes, "chunk": c, "chunks": chunks}

    def run_case(self, case: Any, res: CaseResult, tier: str) -> None:
        if case["kind"] == "repoint":
            self._repoint(case, res)
        elif case["kind"] == "delete_spelling":
            self._delete_spelling(case, res)
        else:
            self._hist(case, res, tier)

    def _delete_spelling(self, case: Any, res: CaseResult) -> None:
        """a file delete removes exactly the named files, whichever of the two table-relative spellings
        ('/data/x' or 'data/x') the manifest entry and the request use"""
        rng = rng_for(0, "c15ds")
        ip = Interposer().install()
        try:
            with Scratch("c15d") as d:
                h = history.History(str(d / "t"), rng, ip=ip)
                for op in [("append", 2), ("prebuilt", case["stored"], 2), ("append", 1)]:
                    out = h.apply(op)
                    assert out["ok"], out
                    h.observe(op, True)
                    if op[0] == "prebuilt":
                        stored = out["spelled"]
                if case.get("registered", 1) == 2:
                    # the same data file registered a second time by a later commit (a second manifest names it)
                    from datashard.data_structures import DataFile, FileFormat
                    e = next(e["data_file"] for e in h.last_view.current().entries
                             if reader.norm(e["data_file"]["file_path"]) == reader.norm(stored))
                    with h.table.new_transaction() as tx:
                        tx.append_files([DataFile(file_path=stored, file_format=FileFormat.PARQUET, partition_values={},
                                                  record_count=e["record_count"], file_size_in_bytes=e["file_size_in_bytes"],
                                                  checksum=e.get("checksum"))])
                        tx.commit()
                    h.observe(("append_files-again", stored), True)
                    res.count("double_registrations")
                before = h.last_view.current()
                norm = reader.norm(stored)
                victim = {"same": stored, "lead": "/" + norm, "nolead": norm, "bare_string": stored, "two_calls": stored}[case["delete"]]
                second = None
                if case["delete"] == "two_calls":
                    # one transaction, TWO delete_files() calls: both named files must go
                    second = next(f for f in before.files if f != norm)
                try:
                    with h.table.new_transaction() as tx:
                        if second is not None:
                            tx.delete_files(["/" + second])
                        # bare_string: the path itself instead of a list of paths (a str iterates its characters)
                        tx.delete_files(victim if case["delete"] == "bare_string" else [victim])
                        tx.commit()
                except (TypeError, ValueError):
                    if case["delete"] != "bare_string":
                        raise
                    res.evals += 1
                    res.count("deletes_checked")
                    res.count("bare_string_request_rejected")
                    res.key(["delete_spelling", case["stored"], case["delete"], case.get("registered", 1)])
                    return
                tv = h.observe(("delete", victim), True)
                res.evals += 1
                res.count("deletes_checked")
                res.key(["delete_spelling", case["stored"], case["delete"], case.get("registered", 1)])
                after = set(tv.current().files)
                want = set(before.files) - {norm} - ({second} if second else set())
                if after != want:
                    res.violation(f"delete-not-exact:stored-{case['stored']}:request-{case['delete']}" + (":registered-twice" if case.get("registered", 1) == 2 else ""),
                                  f"delete_files([{victim!r}]) on an entry stored as {stored!r} left {sorted(after)}, expected {sorted(want)}",
                                  {"stored": stored, "request": victim})
        finally:
            ip.uninstall()

    # ------------------------------------------------------------------
    def _repoint(self, case: Any, res: CaseResult) -> None:
        from datashard.data_structures import Snapshot
        from datashard.snapshot_manager import repoint_parents_to_surviving_ancestors

        n = case["n"]
        options = [None, -1, DANGLING] + list(range(n))
        nodes = list(range(n))
        for idx, parents in enumerate(itertools.product(options, repeat=n)):
            if idx % case["chunks"] != case["chunk"]:
                continue
            parent_of = dict(zip(nodes, parents))
            forest = is_forest(parent_of)
            for mask in range(1 << n):
                kept_ids = {i for i in nodes if mask >> i & 1}
                snaps = [Snapshot(snapshot_id=i, timestamp_ms=i, manifest_list="m", parent_snapshot_id=parent_of[i])
                         for i in nodes]
                kept = [s for s in snaps if s.snapshot_id in kept_ids]
                repoint_parents_to_surviving_ancestors(snaps, kept)
                res.count("repoint_cases")
                res.evals += 1
                removed = len(kept_ids) < n
                for s in kept:
                    got = s.parent_snapshot_id
                    gotn = "none" if got in (None, -1) else got
                    if forest:
                        exp = model_repoint(parent_of, kept_ids, s.snapshot_id)
                        if gotn != exp:
                            res.violation("repoint-wrong-ancestor",
                                          f"parents={parent_of} kept={sorted(kept_ids)} node={s.snapshot_id}: got {got}, "
                                          f"nearest kept ancestor is {exp}",
                                          {"parents": repr(parent_of), "kept": sorted(kept_ids)})
                    else:
                        if gotn != "none" and gotn not in kept_ids:
                            res.violation("repoint-dangling-on-cycle",
                                          f"cyclic parents={parent_of} kept={sorted(kept_ids)}: node {s.snapshot_id} -> {got}",
                                          {"parents": repr(parent_of), "kept": sorted(kept_ids)})
                if removed and forest and kept:
                    depth = max(self._depth(parent_of, i) for i in nodes)
                    res.key(["rp", n, len(kept_ids), depth, sum(1 for p in parents if p == DANGLING)])
        if len(res.samples) < 1:
            res.sample({"repoint_forest_example": {"parents": {0: None, 1: 0, 2: 1}, "kept": [0, 2],
                                                   "expected_parent_of_2": 0}, "nodes": n})

    @staticmethod
    def _depth(parent_of: Dict[int, Any], n: int) -> int:
        d = 0
        p = parent_of[n]
        seen = set()
        while p is not None and p != -1 and p in parent_of and p not in seen:
            seen.add(p)
            d += 1
            p = parent_of[p]
        return d

    # ------------------------------------------------------------------
    def _hist(self, case: Any, res: CaseResult, tier: str) -> None:
        rng = rng_for(case["seed"], "c15", case["i"])
        nops = rng.randint(6, 14)
        ops = history.gen_ops(rng, nops, ALPHABET)
        ip = Interposer().install()
        clock = history.Clock(case["clock"], rng)
        try:
            with Scratch("c15") as d, GlobalPatch() as gp:
                if case["clock"] != "real":
                    patch_datetime(gp, clock.now)
                h = history.History(str(d / "t"), rng, ip=ip)
                prev_lsn = 0
                removed_any = False
                for step, op in enumerate(ops):
                    before = h.last_view
                    out = h.apply(op)
                    if out.get("raced") and out["ok"]:
                        res.count("commits_retried_after_lost_race")
                    tv = h.observe(op, out["ok"])
                    res.count("steps_checked")
                    res.evals += 1
                    if out.get("expect_fail") and out["ok"]:
                        res.inconclusive.append("fault plan for fail_commit did not fire")
                    v = self._check(h, tv, before, op, out, prev_lsn, res, case)
                    if tv.meta is not None:
                        prev_lsn = max(prev_lsn, tv.meta.get("last_sequence_number", 0))
                        retained = {s.id for s in tv.snapshots}
                        if len(retained) < len(h.order):
                            removed_any = True
                            res.count("steps_with_removed_snapshot")
                        if len(retained) >= 2 and removed_any:
                            res.key([op[0], case["clock"], min(len(retained), 5), out["ok"]])
                    if v:
                        break
                if len(res.samples) < 1:
                    res.sample({"clock": case["clock"], "ops": [list(map(str, o)) for o in ops],
                                "final_retained": len(h.last_view.snapshots) if h.last_view else 0,
                                "snapshots_ever_committed": len(h.order)})
        finally:
            ip.uninstall()

    def _check(self, h: history.History, tv: reader.TableView, before: Optional[reader.TableView], op: Any,
               out: Dict[str, Any], prev_lsn: int, res: CaseResult, case: Any) -> bool:
        wit = {"clock": case["clock"], "history": h.log[-16:], "op": list(map(str, op)), "outcome": out}

        def bad(sig: str, msg: str) -> bool:
            res.violation(sig, msg, wit)
            return True

        if tv.meta is None:
            return bad("metadata-unreadable", f"independent reader cannot read the table after {op}: {tv.error}")
        meta = tv.meta
        retained = [s.id for s in tv.snapshots]
        rset = set(retained)
        cur = meta.get("current_snapshot_id")
        # 1. current in retained, or table empty
        if cur in (None, -1):
            if retained:
                return bad("current-unset-with-snapshots", f"current_snapshot_id={cur} but {len(retained)} snapshots retained")
        elif cur not in rset:
            return bad("current-not-retained", f"current snapshot {cur} is not among the retained snapshots")
        if len(rset) != len(retained):
            return bad("duplicate-snapshot", "a snapshot id appears twice in metadata.snapshots")
        # 2. parent links
        for s in tv.snapshots:
            p = s.parent
            if p in (None, -1):
                continue
            if p not in rset:
                return bad("parent-dangling", f"snapshot {s.id} has parent {p} which is not retained")
            anc = set()
            q = h.snaps[s.id].parent
            while q is not None and q in h.snaps and q not in anc:
                anc.add(q)
                q = h.snaps[q].parent
            if p not in anc:
                return bad("parent-not-ancestor", f"snapshot {s.id} has parent {p} which is not a true ancestor")
        # 3. sequence numbers
        lsn = meta.get("last_sequence_number", 0)
        if lsn < prev_lsn:
            return bad("lsn-decreased", f"last_sequence_number went from {prev_lsn} to {lsn}")
        by_order = sorted(tv.snapshots, key=lambda s: h.snaps[s.id].order)
        seqs = [s.seq for s in by_order]
        if any(q is None for q in seqs):
            return bad("seq-missing", f"a retained snapshot has no sequence number: {seqs}")
        if any(b <= a for a, b in zip(seqs, seqs[1:])):
            return bad("seq-not-increasing", f"sequence numbers in commit order are {seqs}")
        if seqs and max(seqs) > lsn:
            return bad("seq-exceeds-lsn", f"max sequence {max(seqs)} > last_sequence_number {lsn}")
        # sequence numbers must also exceed those of every snapshot ever committed before
        for s in by_order:
            earlier = [h.snaps[o].seq for o in h.order[:h.snaps[s.id].order] if h.snaps[o].seq is not None]
            if earlier and s.seq <= max(earlier):
                return bad("seq-reused", f"snapshot {s.id} has sequence {s.seq} <= an earlier commit's {max(earlier)}")
        # 4. snapshot log
        log_ids = [e["snapshot_id"] for e in meta.get("snapshot_log", [])]
        if any(i not in rset for i in log_ids):
            return bad("snapshot-log-unretained", "snapshot_log names a snapshot that is not retained")
        orders = [h.snaps[i].order for i in log_ids]
        if orders != sorted(orders):
            return bad("snapshot-log-order", f"snapshot_log is not in commit order: {orders}")
        # 5. current snapshot never expired / removed by anything but delete_snapshot of it
        if before is not None and before.current_id is not None and out["ok"]:
            if op[0] in ("expire", "prop", "append", "multi", "delete", "delete_append") and \
                    before.current_id not in rset and cur == before.current_id:
                return bad("current-expired", "the current snapshot was expired")
            if op[0] == "expire" and len(op) > 3 and op[3] == "plain" and before.current_id not in rset:
                return bad("current-expired", f"expire removed the current snapshot {before.current_id}")
        # 6. manifest entries keep adding snapshot + sequence number; deletes remove exactly the named files
        curview = tv.current()
        if curview is not None and curview.error is None:
            for e in curview.entries:
                fp = reader.norm(e["data_file"]["file_path"])
                orig = h.file_added.get(fp)
                if orig is None:
                    continue
                gotseq = e.get("file_sequence_number") if e.get("file_sequence_number") is not None else e.get("sequence_number")
                if e.get("status") == 0:
                    res.count("rewritten_entries_checked")
                if (e.get("snapshot_id"), gotseq) != orig:
                    return bad("entry-redated", f"file {fp} now carries (snapshot, seq)=({e.get('snapshot_id')},{gotseq}), "
                                                f"was added with {orig}")
            if out["ok"] and op[0] in ("delete", "delete_append") and before is not None and not out.get("skipped"):
                bcur = before.current()
                bfiles = set(bcur.files) if bcur is not None else set()
                victims = set(out.get("victims", []))
                new = set(curview.files)
                expected_old = bfiles - victims
                if (new & bfiles) != expected_old:
                    return bad("delete-not-exact", f"delete of {sorted(victims)} left {sorted(new & bfiles)}, "
                                                   f"expected {sorted(expected_old)}")
                res.count("deletes_checked")
        elif curview is not None:
            return bad("current-unreadable", f"current snapshot unreadable: {curview.error}")
        # 7. metadata log
        mlog = meta.get("metadata_log", [])
        raw = meta.get("properties", {}).get("write.metadata.previous-versions-max")
        try:
            bound = int(raw) if raw is not None else 100
        except (TypeError, ValueError):
            bound = 100
        if bound < 1:
            bound = 100
        if len(mlog) > bound:
            return bad("metadata-log-too-long", f"metadata_log has {len(mlog)} entries, bound {bound}")
        b = h.blobs()
        names = []
        for e in mlog:
            f = e.get("metadata-file", "")
            if b.get(f) is None:
                return bad("metadata-log-missing-file", f"metadata_log names missing file {f}")
            names.append(f.rsplit("/", 1)[-1])
        # superseded versions, in order: must be a contiguous suffix of the pointer history before the current
        hist = h.pointers[:-1] if (h.pointers and h.pointers[-1] == tv.pointer) else h.pointers
        if names:
            res.count("metadata_log_checked")
            if any(n not in hist for n in names):
                return bad("metadata-log-not-superseded", f"metadata_log {names} names a version that was never current "
                                                          f"(history {hist})")
            idxs = [hist.index(n) for n in names]
            if idxs != sorted(idxs) or len(set(idxs)) != len(idxs):
                return bad("metadata-log-order", f"metadata_log not in supersession order: {names}")
            if names[-1] != hist[-1]:
                return bad("metadata-log-tail", f"metadata_log tail {names[-1]} is not the version just superseded {hist[-1]}")
        return False


if __name__ == "__main__":
    raise SystemExit(C15().main())
