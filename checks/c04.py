"""C04 - a failed, interrupted or ambiguous commit never damages committed data.

Fault enumeration: a dry run of each commit scenario records its storage calls
(L1 operations on local storage, S3 requests on the double); every call is then made
to fail before its effect (storage error kinds), after its effect (S3: the request
is applied, then the client raises), or is surrounded by an asynchronous
KeyboardInterrupt / SystemExit; selected double faults hit the first clean-up call
that follows; the thorough tier interrupts at every *line* executed inside the
package (sys.monitoring).  Oracle: outcome <-> state table, referenced files exist,
transaction files never become reachable, the table stays readable and writable
through the same and a fresh handle.
"""
from __future__ import annotations

import os
import sys
import time as _time
from typing import Any, Callable, Dict, List, Optional, Set, Tuple

from vf import reader, tables
from vf.common import CaseResult, Check, Scratch
from vf.fakes3 import client_error
from vf.interpose import GlobalPatch, Interposer, ModuleProxy
from vf.scenario import HINT, Template

SCENARIOS = ["append", "multi", "delete", "delete_append", "expire", "delsnap", "readd"]
STYLES = ["ctx", "explicit", "explicit_rollback"]
BACKENDS = ["local", "s3", "s3_nocas"]
LEASE = 60.0
OSFUNCS = ("fsync", "replace", "write", "open", "remove", "unlink")


def build_seed(path: str) -> None:
    import datashard as ds

    t = ds.create_table(path, schema=tables.std_schema())
    for ids in ([1, 2], [3], [4, 5]):
        t.append_records(tables.rows(ids))
        _time.sleep(0.002)


def make_op(t: Any, scenario: str, style: str) -> Callable[[], Any]:
    files = tables.current_files(t)
    seeds = sorted(t.metadata_manager.refresh().snapshots, key=lambda s: s.sequence_number or 0)

    def body(tx: Any) -> None:
        if scenario == "append":
            tx.append_data(tables.rows([9001, 9002]))
        elif scenario == "multi":
            tx.append_data(tables.rows([9001]))
            tx.append_data(tables.rows([9002, 9003]))
        elif scenario == "delete":
            tx.delete_files([files[0]])
        elif scenario == "delete_append":
            tx.delete_files([files[0]])
            tx.append_data(tables.rows([9001]))
        elif scenario == "expire":
            tx.expire_snapshots(seeds[-1].timestamp_ms)
        elif scenario == "readd":
            # append_files() of a pre-existing data file that OLDER retained snapshots still reference (a re-run
            # job, a restore): the transaction did not write it and must never delete it
            from datashard.data_structures import DataFile, FileFormat
            e = t._verif_readd
            tx.append_files([DataFile(file_path="/" + e["file_path"].lstrip("/"), file_format=FileFormat.PARQUET,
                                      partition_values={}, record_count=e["record_count"],
                                      file_size_in_bytes=e["file_size_in_bytes"], checksum=e.get("checksum"))])

    if scenario == "delsnap":
        return lambda: t.snapshot_manager.delete_snapshot(seeds[0].snapshot_id)
    if style == "ctx":
        def run_ctx() -> Any:
            with t.new_transaction() as tx:
                body(tx)
                return tx.commit()
        return run_ctx

    def run_explicit() -> Any:
        tx = t.new_transaction().begin()
        try:
            body(tx)
            return tx.commit()
        except BaseException:
            if style == "explicit_rollback":
                tx.rollback()
            raise
    return run_explicit


def expected_post(scenario: str, pre: Dict[str, Any]) -> Dict[str, Any]:
    rows = list(pre["rows"])
    n = pre["nsnap"]
    new = lambda ids: reader.canon_rows(tables.rows(ids))   # noqa
    if scenario == "append":
        return {"rows": sorted(rows + new([9001, 9002])), "nsnap": n + 1}
    if scenario == "multi":
        return {"rows": sorted(rows + new([9001, 9002, 9003])), "nsnap": n + 1}
    if scenario == "delete":
        return {"rows": sorted(r for r in rows if r not in pre["first_file_rows"]), "nsnap": n + 1}
    if scenario == "delete_append":
        return {"rows": sorted([r for r in rows if r not in pre["first_file_rows"]] + new([9001])), "nsnap": n + 1}
    if scenario == "expire":
        return {"rows": rows, "nsnap": 1}
    if scenario == "delsnap":
        return {"rows": rows, "nsnap": n - 1}
    if scenario == "readd":
        return {"rows": sorted(rows + pre["readd_rows"]), "nsnap": n + 1}
    raise ValueError(scenario)


class Run:
    """One faulted execution on a fresh clone."""

    def __init__(self, check: "C04", case: Dict[str, Any], tmpl: Template, ip: Interposer):
        self.check = check
        self.case = case
        self.tmpl = tmpl
        self.ip = ip

    def execute(self, arm: Callable[[Any, Any, Dict[str, Any]], Callable[[], None]]) -> Dict[str, Any]:
        """arm(inst, table, ctx) installs the fault and returns a disarm function."""
        import datashard as ds
        import datashard.file_lock as flm
        import datashard.lock_provider as lpm
        import datashard.s3_consistency as s3c

        case = self.case
        inst = self.tmpl.clone()
        with inst, GlobalPatch() as gp:
            if case["backend"] == "s3_nocas":
                os.environ["DATASHARD_S3_USE_CONDITIONAL_WRITES"] = "false"
            clock = inst.store.clock if inst.store is not None else None
            from vf.fakes3 import VClock
            clock = clock or VClock()

            def vsleep(s: float) -> None:
                clock.advance(float(s))

            proxy = ModuleProxy(_time, {"sleep": vsleep, "time": clock.now, "monotonic": clock.now})
            for m in (lpm, s3c, flm):
                gp.set(m, "time", proxy)
            gp.set(_time, "sleep", vsleep)
            gp.set(lpm.S3LockProviderBase, "_start_heartbeat", lambda self_: None)
            blobs = inst.blobs()
            readd_entry = None
            if case["scenario"] == "readd":
                # preparation (outside the fault window): the current snapshot drops its first file, older ones keep it
                tv_ = reader.read_table(blobs)
                readd_entry = tv_.current().entries[0]["data_file"]
                t_ = ds.load_table(inst.table_path)
                with t_.new_transaction() as tx_:
                    tx_.delete_files([readd_entry["file_path"]])
                    tx_.commit()
            tv = reader.read_table(blobs)
            cur = tv.current()
            pre = {"rows": tv.current_rows(), "nsnap": len(tv.snapshots), "pointer": tv.pointer,
                   "first_file_rows": reader.canon_rows(reader.read_rows(blobs, cur.files[0])),
                   "files": set(blobs.listing())}
            if readd_entry is not None:
                pre["readd_rows"] = reader.canon_rows(reader.read_rows(blobs, reader.norm(readd_entry["file_path"])))
            post = expected_post(case["scenario"], pre)
            t = ds.load_table(inst.table_path)
            t._verif_readd = readd_entry
            op = make_op(t, case["scenario"], case["style"])
            ctx: Dict[str, Any] = {"fired": [], "written": []}

            def wlog(o: Any) -> None:
                if o.phase == "after" and o.exc is None:
                    if o.name.endswith(".write_file") and o.path and (o.path.startswith(("data/", "metadata/manifests/"))):
                        ctx["written"].append(o.path)
                    if o.name == "data.write_data_file":
                        ctx["written"].append((o.kwargs.get("file_path") or o.args[0]).lstrip("/"))

            self.ip.after.append(wlog)
            disarm = arm(inst, t, ctx)
            try:
                try:
                    r = op()
                    outcome = ("returned", repr(r))
                except BaseException as e:  # noqa
                    outcome = ("raised", type(e).__name__, str(e)[:200])
            finally:
                disarm()
                self.ip.after.remove(wlog)
            result = {"outcome": outcome, "fired": ctx["fired"], "viol": []}
            self._judge(inst, t, pre, post, outcome, ctx, result, clock)
            if case["backend"] == "s3_nocas":
                os.environ["DATASHARD_S3_USE_CONDITIONAL_WRITES"] = "true"
            return result

    def _judge(self, inst: Any, t: Any, pre: Dict[str, Any], post: Dict[str, Any], outcome: Tuple[Any, ...],
               ctx: Dict[str, Any], result: Dict[str, Any], clock: Any) -> None:
        import datashard as ds

        viol = result["viol"]
        blobs = inst.blobs()
        tv = reader.read_table(blobs)
        if tv.meta is None:
            viol.append(("table-unreadable", f"independent reader: {tv.error}"))
            return
        errs = [s.error for s in tv.snapshots if s.error]
        if errs:
            viol.append(("referenced-file-missing", f"a file referenced by a retained snapshot is gone: {errs[0]}"))
            return
        rows, nsnap = tv.current_rows(), len(tv.snapshots)
        is_pre = rows == pre["rows"] and nsnap == pre["nsnap"]
        is_post = rows == post["rows"] and nsnap == post["nsnap"]
        result["state"] = "pre" if is_pre else "post" if is_post else "other"
        if not (is_pre or is_post):
            viol.append(("neither-pre-nor-post", f"{len(rows)} rows / {nsnap} snapshots"))
            return
        kind = outcome[0]
        exc = outcome[1] if kind == "raised" else None
        base_exc = exc in ("KeyboardInterrupt", "SystemExit")
        if kind == "returned" and not is_post:
            noop = self.case["scenario"] == "delsnap" and outcome[1] == "False"
            if not noop:
                viol.append(("returned-but-not-committed", "the call returned success but the table is in the pre-state"))
                return
        if kind == "raised" and not base_exc and exc != "AmbiguousCommitError" and is_post and not is_pre:
            viol.append((f"raised-but-committed:{exc}", f"the call raised {exc} ({outcome[2]}) but the commit is visible"))
            return
        if kind == "raised" and exc == "AmbiguousCommitError":
            now = set(blobs.listing())
            gone = [p for p in ctx["written"] if p not in now]
            if gone:
                viol.append(("ambiguous-but-files-deleted", f"AmbiguousCommitError but transaction files were deleted: {gone[:3]}"))
                return
        # same handle stays writable (on S3, after the lease lapsed when a release was made to fail)
        if inst.store is not None:
            clock.advance(LEASE + 5.0)
        state_rows = rows
        try:
            t.append_records(tables.rows([7777]))
        except BaseException as e:  # noqa
            viol.append((f"same-handle-unwritable-after:{exc or 'return'}", f"append through the same handle raised {type(e).__name__}: {str(e)[:160]}"))
            return
        try:
            t2 = ds.load_table(inst.table_path)
            got = reader.canon_rows(t2.scan())
        except BaseException as e:  # noqa
            viol.append(("fresh-handle-unreadable", f"{type(e).__name__}: {str(e)[:160]}"))
            return
        want = sorted(state_rows + reader.canon_rows(tables.rows([7777])))
        if got != want:
            viol.append(("followup-append-wrong", f"{len(got)} rows after the follow-up append, expected {len(want)}"))
            return
        # uncommitted files never become reachable: collect everything collectable and re-read
        try:
            if inst.store is not None:
                for k in list(inst.store.objects):
                    inst.store.set_age(k[0], k[1], 200000)
            else:
                tables.age_tree(inst.root, 200000)
            from datashard.garbage_collector import GarbageCollector
            GarbageCollector(t2.table_path, t2.metadata_manager, t2.file_manager).collect(0, 0)
            got2 = reader.canon_rows(ds.load_table(inst.table_path).scan())
        except BaseException as e:  # noqa
            viol.append(("gc-or-read-fails-afterwards", f"{type(e).__name__}: {str(e)[:160]}"))
            return
        if got2 != want:
            viol.append(("rows-change-after-gc", f"{len(got2)} rows after collection, expected {len(want)}"))
            return
        tv2 = reader.read_table(blobs)
        if any(s.error for s in tv2.snapshots):
            viol.append(("referenced-file-missing-after-gc", str([s.error for s in tv2.snapshots if s.error][:1])))


class C04(Check):
    pid = "C04"
    level = "fault_enumeration"
    exhaustive = True
    rule = ("scenarios {append, multi-append, delete, delete+append, expire, delete_snapshot} x call style {context manager, "
            "explicit begin/commit, explicit + caller rollback} x backend {local, CAS-S3 double, non-CAS S3 double}; a dry "
            "run measures the storage calls (L1 ops / S3 requests) of the operation; EVERY call is failed before its effect "
            "(OSError, disk-full IOError | S3: transient 503 beyond the retry budget, permanent AccessDenied), after its "
            "effect (S3 writes/deletes incl. pointer PUT, lock PUT/DELETE, marker deletes), and surrounded by "
            "KeyboardInterrupt / SystemExit (before and after the call); double faults: fault i + failure of the next "
            "delete/release call; thorough: KeyboardInterrupt at every line event inside src/datashard (sys.monitoring). "
            "non-trivial = the injected fault fired; distinct by (scenario, style, backend, fault kind, call index)")
    assumptions = [
        "S3 double: a request failed 'after effect' has been applied exactly once",
        "interrupts between bytecodes within one line are not explored",
    ]
    require = {"faults_fired": 500, "state_pre": 200, "state_post": 50, "ambiguous_seen": 5, "baseexception_cases": 100}
    worker_timeout_s = {"quick": 1500, "thorough": 7200}
    _dry: Dict[str, List[Any]] = {}

    # ---- dry runs ---------------------------------------------------------
    def _calls(self, scenario: str, style: str, backend: str) -> List[Any]:
        key = f"{scenario}:{style}:{backend}"
        if key not in self._dry:
            ip = Interposer().install()
            try:
                with Scratch("c04d") as d:
                    tmpl = Template("local" if backend == "local" else "s3", str(d))
                    tmpl.build(build_seed)
                    run = Run(self, {"scenario": scenario, "style": style, "backend": backend}, tmpl, ip)
                    calls: List[Any] = []

                    def arm(inst: Any, t: Any, ctx: Dict[str, Any]) -> Callable[[], None]:
                        if inst.store is not None:
                            h = lambda req: calls.append(("s3", req.op, req.key.split("/", 2)[-1]))  # noqa
                            inst.store.before.append(h)
                            return lambda: inst.store.before.remove(h)
                        h2 = lambda o: calls.append(("l1", o.name, o.path)) if (o.phase == "before" and o.depth == 0) else None  # noqa
                        ip.before.append(h2)
                        return lambda: ip.before.remove(h2)

                    r = run.execute(arm)
                    if r["outcome"][0] != "returned" or r["viol"]:
                        raise RuntimeError(f"dry run of {key} failed: {r}")
                    self._dry[key] = calls
            finally:
                ip.uninstall()
        return self._dry[key]

    def gen_cases(self, tier: str, seed: int):
        from vf.common import setup_repo_path

        setup_repo_path()
        combos = []
        for sc in SCENARIOS:
            for be in BACKENDS:
                styles = ["ctx"] if sc == "delsnap" else (STYLES if (tier == "thorough" or (sc == "append")) else ["ctx", "explicit_rollback"])
                if tier == "quick" and be == "s3_nocas" and sc not in ("append", "delete"):
                    continue
                for st in styles:
                    combos.append((sc, st, be))
        for sc, st, be in combos:
            n = len(self._calls(sc, st, be))
            kinds = ["err", "diskfull", "kbd_before", "kbd_after", "sysexit_before"] if be == "local" else \
                    ["transient", "permanent", "after_effect", "applied_412", "kbd_before", "kbd_after"]
            if tier == "quick" and st != "ctx":
                kinds = [k for k in kinds if k in ("err", "transient", "kbd_after", "after_effect", "applied_412")]
            group = 12
            for kind in kinds:
                for i in range(0, n, group):
                    yield {"scenario": sc, "style": st, "backend": be, "kind": kind, "idx": list(range(i, min(n, i + group)))}
            yield {"scenario": sc, "style": st, "backend": be, "kind": "double", "idx": list(range(n))}
            if be == "local" and (tier == "thorough" or st != "explicit"):
                for fn in OSFUNCS:
                    yield {"scenario": sc, "style": st, "backend": be, "kind": "os_err", "fn": fn}
        if tier == "thorough":
            for sc in SCENARIOS:
                for st in (["ctx", "explicit_rollback"] if sc != "delsnap" else ["ctx"]):
                    for shard in range(16):
                        yield {"scenario": sc, "style": st, "backend": "local", "kind": "line", "shard": shard, "nshards": 16}
        else:
            for shard in range(8):
                yield {"scenario": "append", "style": "ctx", "backend": "local", "kind": "line", "shard": shard,
                       "nshards": 8, "stride": 6}

    # ---- execution ----------------------------------------------------------
    def run_case(self, case: Any, res: CaseResult, tier: str) -> None:
        ip = Interposer().install()
        try:
            with Scratch("c04") as d:
                tmpl = Template("local" if case["backend"] == "local" else "s3", str(d))
                tmpl.build(build_seed)
                run = Run(self, case, tmpl, ip)
                if case["kind"] == "line":
                    return self._lines(case, run, res)
                if case["kind"] == "os_err":
                    for i in range(400):
                        r = run.execute(self._os_armer(case["fn"], i))
                        self._record(case, i, ("os", case["fn"], r.get("os_target", "")), r, res)
                        if not r["fired"]:
                            break
                    return
                calls = self._calls(case["scenario"], case["style"], case["backend"])
                for i in case["idx"]:
                    if i >= len(calls):
                        continue
                    if case["kind"] == "double":
                        if calls[i][1] not in ("local.write_file", "PUT", "s3.write_file"):
                            continue
                    r = run.execute(self._armer(case, i, ip))
                    self._record(case, i, calls[i], r, res)
        finally:
            ip.uninstall()

    def _armer(self, case: Any, idx: int, ip: Interposer) -> Callable[[Any, Any, Dict[str, Any]], Callable[[], None]]:
        kind = case["kind"]

        def arm(inst: Any, t: Any, ctx: Dict[str, Any]) -> Callable[[], None]:
            n = {"i": -1, "target": None, "second": False}
            if inst.store is None:
                def before(o: Any) -> None:
                    if o.phase != "before" or o.depth != 0:
                        return
                    n["i"] += 1
                    if kind == "double" and n["second"] and o.name in ("local.delete_file", "flock.release"):
                        n["second"] = False
                        ctx["fired"].append("second:" + o.brief())
                        raise OSError("injected second fault in clean-up")
                    if n["i"] != idx:
                        return
                    if kind in ("err", "double"):
                        ctx["fired"].append(o.brief())
                        n["second"] = kind == "double"
                        raise OSError("injected I/O error")
                    if kind == "diskfull":
                        ctx["fired"].append(o.brief())
                        raise IOError(28, "No space left on device")
                    if kind == "kbd_before":
                        ctx["fired"].append(o.brief())
                        raise KeyboardInterrupt()
                    if kind == "sysexit_before":
                        ctx["fired"].append(o.brief())
                        raise SystemExit(3)
                    if kind == "kbd_after":
                        n["target"] = o.seq

                def after(o: Any) -> None:
                    if o.phase == "after" and kind == "kbd_after" and n["target"] == o.seq and o.exc is None:
                        n["target"] = None
                        ctx["fired"].append(o.brief() + " [after]")
                        raise KeyboardInterrupt()

                ip.before.append(before)
                ip.after.append(after)
                return lambda: (ip.before.remove(before), ip.after.remove(after))

            store = inst.store

            def s_before(req: Any) -> None:
                n["i"] += 1
                if kind == "double" and n["second"] and req.op == "DELETE":
                    n["second"] = False
                    ctx["fired"].append("second:" + req.brief())
                    raise client_error("ServiceUnavailable", req.op, 503)
                same = n["target"] is not None and (req.op, req.key) == n["target"]
                if n["i"] == idx or (same and kind in ("transient", "permanent")):
                    if kind in ("transient", "double"):
                        n["target"] = (req.op, req.key)      # persists for every retry of this request
                        n["second"] = kind == "double"
                        ctx["fired"].append(req.brief())
                        raise client_error("ServiceUnavailable", req.op, 503)
                    if kind == "permanent":
                        n["target"] = (req.op, req.key)
                        ctx["fired"].append(req.brief())
                        raise client_error("AccessDenied", req.op, 403)
                    if kind == "kbd_before":
                        ctx["fired"].append(req.brief())
                        raise KeyboardInterrupt()
                    if kind in ("after_effect", "kbd_after") and n["i"] == idx:
                        n["pending"] = req.n
                    if kind == "applied_412" and n["i"] == idx and req.op == "PUT" and \
                            ("IfMatch" in req.kw or "IfNoneMatch" in req.kw):
                        n["pending"] = req.n

            def s_after(req: Any) -> None:
                if n.get("pending") == req.n:
                    n["pending"] = None
                    if kind == "kbd_after":
                        ctx["fired"].append(req.brief() + " [after]")
                        raise KeyboardInterrupt()
                    if kind == "applied_412":
                        # the transport retried a conditional PUT whose first response was lost: the
                        # retry meets the object the first attempt wrote and is answered 412
                        ctx["fired"].append(req.brief() + " [applied, then answered 412]")
                        raise client_error("PreconditionFailed", req.op, 412)
                    if req.op in ("PUT", "DELETE"):
                        ctx["fired"].append(req.brief() + " [applied, then client error]")
                        raise client_error("RequestTimeout", req.op, 500)

            store.before.append(s_before)
            store.after.append(s_after)
            return lambda: (store.before.remove(s_before), store.after.remove(s_after))

        return arm

    def _os_armer(self, fn: str, idx: int) -> Callable[[Any, Any, Dict[str, Any]], Callable[[], None]]:
        """Fail the idx-th call of os.<fn> made directly by the package's own code (EIO, before
        the call takes effect): the file fsync, the directory fsync, the rename, a write, ..."""
        import errno

        def arm(inst: Any, t: Any, ctx: Dict[str, Any]) -> Callable[[], None]:
            real = getattr(os, fn)
            n = {"i": -1}

            def wrapper(*a: Any, **kw: Any) -> Any:
                caller = sys._getframe(1).f_code.co_filename
                if "/datashard/" in caller:
                    n["i"] += 1
                    if n["i"] == idx:
                        ctx["fired"].append(f"os.{fn}#{idx} from {os.path.basename(caller)}:{sys._getframe(1).f_lineno}")
                        raise OSError(errno.EIO, f"injected EIO in os.{fn}")
                return real(*a, **kw)

            setattr(os, fn, wrapper)
            return lambda: setattr(os, fn, real)

        return arm

    def _record(self, case: Any, idx: Any, call: Any, r: Dict[str, Any], res: CaseResult) -> None:
        res.evals += 1
        if not r["fired"]:
            res.count("fault_not_reached")
            return
        res.count("faults_fired")
        res.count(f"state_{r.get('state', 'na')}")
        out = r["outcome"]
        if out[0] == "raised" and out[1] == "AmbiguousCommitError":
            res.count("ambiguous_seen")
        if out[0] == "raised" and out[1] in ("KeyboardInterrupt", "SystemExit"):
            res.count("baseexception_cases")
        res.key([case["scenario"], case["style"], case["backend"], case["kind"], case.get("fn"), idx])
        if case["kind"] == "os_err":
            res.count("os_level_faults_fired")
        cls = _callclass(call) if case["kind"] != "os_err" else f"os.{case['fn']}:" + r["fired"][0].split(" from ")[1].split(":")[0]
        for sig, msg in r["viol"][:2]:
            res.violation(f"{sig}:{case['kind']}@{cls}:{case['backend']}",
                          f"{case['scenario']}/{case['style']}: fault {case['kind']} at call #{idx} {call}: {msg}",
                          {"case": {k: v for k, v in case.items() if k != "idx"}, "call_index": idx, "call": call,
                           "fired": r["fired"], "outcome": out, "state": r.get("state")})
        if not r["viol"] and len(res.samples) < 2:
            res.sample({"scenario": case["scenario"], "style": case["style"], "backend": case["backend"],
                        "fault": case["kind"], "at_call": [idx, call], "outcome": out[:2], "state": r.get("state")})

    # ---- line-level interrupts ------------------------------------------------
    def _lines(self, case: Any, run: Run, res: CaseResult) -> None:
        from vf.common import SRC

        mon = sys.monitoring
        TOOL = 3
        srcdir = str(SRC.resolve())
        # dry count
        count = {"n": 0, "target": -1, "armed": False, "where": None}

        def cb(code: Any, line: int) -> Any:
            if not code.co_filename.startswith(srcdir):
                return mon.DISABLE
            if not count["armed"]:
                return None
            count["n"] += 1
            if count["n"] == count["target"]:
                count["armed"] = False
                count["where"] = f"{os.path.basename(code.co_filename)}:{line}"
                raise KeyboardInterrupt()
            return None

        mon.use_tool_id(TOOL, "verif-c04")
        mon.register_callback(TOOL, mon.events.LINE, cb)
        try:
            def arm_factory(target: int) -> Any:
                def arm(inst: Any, t: Any, ctx: Dict[str, Any]) -> Callable[[], None]:
                    count["n"] = 0
                    count["target"] = target
                    count["where"] = None
                    count["armed"] = True
                    mon.restart_events()
                    mon.set_events(TOOL, mon.events.LINE)

                    def disarm() -> None:
                        count["armed"] = False
                        mon.set_events(TOOL, 0)
                        if count["where"]:
                            ctx["fired"].append(count["where"])
                    return disarm
                return arm

            r0 = run.execute(arm_factory(-1))
            total = count["n"]
            res.count("line_events_in_scenario", total if case["shard"] == 0 else 0)
            stride = case.get("stride", 1)
            for target in range(1 + case["shard"] * stride, total + 1, case["nshards"] * stride):
                r = run.execute(arm_factory(target))
                res.evals += 1
                if not r["fired"]:
                    res.count("fault_not_reached")
                    continue
                res.count("faults_fired")
                res.count("line_interrupts")
                res.count("baseexception_cases")
                res.count(f"state_{r.get('state', 'na')}")
                res.key([case["scenario"], case["style"], "line", target])
                where = r["fired"][0]
                for sig, msg in r["viol"][:2]:
                    res.violation(f"{sig}:line@{where.split(':')[0]}:{case['backend']}",
                                  f"{case['scenario']}/{case['style']}: KeyboardInterrupt at line event #{target} ({where}): {msg}",
                                  {"case": case, "line_event": target, "where": where, "outcome": r["outcome"], "state": r.get("state")})
        finally:
            mon.set_events(TOOL, 0)
            mon.register_callback(TOOL, mon.events.LINE, None)
            mon.free_tool_id(TOOL)


def _callclass(call: Any) -> str:
    name, path = str(call[1]), str(call[2] or "")
    if HINT in path:
        p = "pointer"
    elif ".locks" in path:
        p = "lock"
    elif "inflight" in path:
        p = "marker"
    elif "manifest" in path:
        p = "manifest"
    elif path.endswith(".metadata.json"):
        p = "metadata"
    elif path.startswith("data") or "/data/" in path:
        p = "data"
    else:
        p = "other"
    return f"{name.split('.')[-1]}-{p}"


if __name__ == "__main__":
    raise SystemExit(C04().main())
