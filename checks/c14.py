"""C14 - reads fail closed: damaged or missing files raise, never yield partial rows.

Fault enumeration: every file reachable from the current snapshot x damage
class x every read API/option.  Oracle: the outcome is an exception, or exactly
the undamaged answer; with checksum verification on, any byte change in a data
file must raise.
"""
from __future__ import annotations

import os
import shutil
from typing import Any, Dict, List, Optional, Tuple

from vf import reader, tables
from vf.common import CaseResult, Check, Scratch, rng_for
from vf.interpose import Interposer

APIS: List[Tuple[str, Dict[str, Any]]] = [
    ("scan", {}), ("scan", {"verify_checksums": False}), ("scan", {"parallel": 2}),
    ("scan", {"parallel": True, "verify_checksums": False}),
    ("scan_batches", {"batch_size": 2}), ("scan_batches", {"batch_size": 2, "verify_checksums": False}),
    ("iter_records", {}), ("iter_records", {"verify_checksums": False}),
    ("scan_filter", {}), ("scan_filter", {"verify_checksums": False}),
    ("row_count", {}),
]


def build_table(root: str) -> None:
    import datashard as ds

    t = ds.create_table(root, schema=tables.std_schema())
    t.append_records(tables.rows([1, 2]))
    t.append_records(tables.rows([3, 4, 5]))
    with t.new_transaction() as tx:
        tx.append_data(tables.rows([6]))
        tx.append_data(tables.rows([7, 8]))
        tx.commit()
    files = tables.current_files(t)
    with t.new_transaction() as tx:     # partial delete -> a rewritten manifest with EXISTING entries
        tx.delete_files([files[-1]])
        tx.commit()
    t.append_records(tables.rows([9]))


def targets_of(root: str) -> List[Tuple[str, str]]:
    tv = reader.read_table(reader.Blobs.local(root))
    cur = tv.current()
    out = [("metadata", "metadata/" + tv.pointer), ("manifest_list", reader.norm(cur.manifest_list))]
    for i, m in enumerate(cur.manifests):
        out.append((f"manifest#{i}", reader.norm(m)))
    for i, f in enumerate(cur.files):
        out.append((f"data#{i}", f))
    out.append(("pointer", reader.HINT))
    return out


def call(root: str, api: str, opts: Dict[str, Any], handle: Any = None) -> Any:
    import datashard as ds

    t = handle if handle is not None else ds.load_table(root)
    if api == "scan":
        return reader.canon_rows(t.scan(**opts))
    if api == "scan_filter":
        return reader.canon_rows(t.scan(filter={"id": (">=", 0)}, **opts))
    if api == "scan_batches":
        return reader.canon_rows([r for b in t.scan_batches(**opts) for r in b])
    if api == "iter_records":
        return reader.canon_rows(list(t.iter_records(**opts)))
    if api == "row_count":
        return t.row_count()
    raise ValueError(api)


def damage_list(kind: str, size: int, tier: str) -> List[Tuple[str, Any]]:
    out: List[Tuple[str, Any]] = [("delete", None)]
    cuts = {0, 1, 4, size // 4, size // 2, (3 * size) // 4, size - 8, size - 4, size - 1}
    if tier == "thorough":
        cuts |= set(range(0, size, max(1, size // 200)))
    for c in sorted(x for x in cuts if 0 <= x < size):
        out.append(("truncate", c))
    flips = {0, 2, size // 3, size // 2, size - 5, size - 1}
    if tier == "thorough":
        flips |= set(range(0, size, max(1, size // 300)))
    for p in sorted(x for x in flips if 0 <= x < size):
        out.append(("flip", p))
    out.append(("garbage", None))
    out.append(("empty_json", None))
    out.append(("swap", None))
    out.append(("transient", None))
    if kind == "manifest_list":
        # still-valid Avro with ONE bookkeeping field of ONE entry changed (what a flipped bit does to a varint):
        # none of these fields decides which rows the table holds
        for fld, val in (("content", 1), ("content", 2), ("sequence_number", 1000), ("min_sequence_number", 1000),
                         ("added_snapshot_id", 7), ("partition_spec_id", 7), ("manifest_length", 1),
                         ("added_data_files_count", 0), ("existing_data_files_count", 99), ("deleted_data_files_count", 5)):
            out.append(("field", [fld, val]))
    if kind.startswith("manifest#"):
        for fld, val in (("snapshot_id", 7), ("sequence_number", 1000), ("file_sequence_number", 1000),
                         ("data_file.file_size_in_bytes", 1)):
            out.append(("field", [fld, val]))
    if kind.startswith("data#"):
        # the bytes change BETWEEN two accesses of one read call: rows may only be decoded from bytes
        # that were verified
        for p in sorted(x for x in flips if 0 <= x < size):
            out.append(("toctou_flip", p))
        out.append(("toctou_swap", None))     # ... replaced by a different VALID parquet file (a sibling's bytes)
    return out


class C14(Check):
    pid = "C14"
    level = "fault_enumeration"
    exhaustive = True
    rule = ("table: 5 commits incl. a multi-file transaction and a partial delete (rewritten manifest); every file "
            "reachable from the current snapshot (current metadata JSON, manifest list, each manifest, each data file) "
            "+ the pointer x damage {delete; truncate at 0,1,4,1/4,1/2,3/4,len-8,len-4,len-1 (thorough: ~200 offsets); "
            "flip one byte at 6 offsets (thorough: ~300); 64 random bytes; '{}' JSON; swap with a sibling of the same "
            "kind; one bookkeeping field of one manifest-list / manifest entry changed in still-valid Avro; transient error on the first read of that file; data files: one byte flipped (file replaced) right after "
            "the read call's first access of the file} x 11 read API/option variants each through a fresh "
            "handle; non-trivial = the damaged file is one the API depends on and the outcome was judged; distinct by "
            "(file kind, damage class, api)")
    assumptions = [
        "damage after which an independent parser still reads *different valid content* (e.g. a digit flipped inside "
        "JSON, two manifests swapped) is counted and not judged - except that with checksum verification on any byte "
        "change of a data file must raise",
        "with verification off a flipped byte that still parses as parquet is outside the property (no checksum is "
        "consulted); counted, not judged",
        "the pointer file is only a hint (C10): damaging it must give the undamaged answer or raise",
    ]
    require = {"judged": 300, "raised": 100, "checksum_detected": 10, "transient_injected": 5}

    def gen_cases(self, tier: str, seed: int):
        from vf.common import setup_repo_path

        setup_repo_path()
        with Scratch("c14g") as d:
            build_table(str(d / "t"))
            tg = targets_of(str(d / "t"))
            sizes = {k: os.path.getsize(str(d / "t" / p)) for k, p in tg}
        for kind, _p in tg:
            for dmg, arg in damage_list(kind, sizes[kind], tier):
                yield {"target": kind, "damage": dmg, "arg": arg}
        # checksum verification switched ON through the environment, in every spelling the library documents/accepts
        for sp in ("on", "ON", "true ", " true", "1\n", "Yes ", "TRUE", "yes", "true\r"):
            yield {"target": "data#0", "damage": "swap_env", "arg": sp}
        # the pointer AND every metadata file gone under a handle that is already open
        yield {"target": "metadata", "damage": "delete_all_metadata", "arg": None}

    def run_case(self, case: Any, res: CaseResult, tier: str) -> None:
        rng = rng_for(0, "c14", case["target"], case["damage"], case["arg"])
        ip = Interposer().install(locks=False)
        try:
            with Scratch("c14") as d:
                root = str(d / "t")
                build_table(root)
                import datashard as ds
                baseline = {}
                warm = ds.load_table(root)          # a handle that has already read everything successfully
                for api, opts in APIS:
                    baseline[(api, repr(opts))] = call(root, api, opts)
                    call(root, api, opts, warm)
                tg = dict(targets_of(root))
                kind = case["target"]
                rel = tg[kind]
                path = os.path.join(root, rel)
                raw = open(path, "rb").read()
                dmg = case["damage"]
                hook = None
                if dmg == "delete_all_metadata":
                    import glob
                    os.remove(os.path.join(root, reader.HINT))
                    for f in glob.glob(os.path.join(root, "metadata", "v*.metadata.json")):
                        os.remove(f)
                elif dmg == "delete":
                    os.remove(path)
                elif dmg == "truncate":
                    open(path, "wb").write(raw[: min(case["arg"], len(raw) - 1)])
                elif dmg == "flip":
                    b = bytearray(raw)
                    b[min(case["arg"], len(b) - 1)] ^= 0x55
                    open(path, "wb").write(bytes(b))
                elif dmg == "field":
                    import fastavro
                    rd = fastavro.reader(open(path, "rb"))
                    schema, recs = rd.writer_schema, list(rd)
                    fld, val = case["arg"]
                    tgt: Any = recs[-1]
                    parts = fld.split(".")
                    for pp in parts[:-1]:
                        tgt = tgt[pp]
                    if parts[-1] not in tgt:
                        res.count("field_absent")
                        return
                    tgt[parts[-1]] = val
                    with open(path, "wb") as f:
                        fastavro.writer(f, schema, recs)
                    res.count("field_tampered")
                elif dmg == "garbage":
                    open(path, "wb").write(bytes(rng.getrandbits(8) for _ in range(64)))
                elif dmg == "empty_json":
                    open(path, "wb").write(b"{}")
                elif dmg in ("swap", "swap_env"):
                    sib = self._sibling(root, tg, kind)
                    if sib is None:
                        res.count("no_sibling")
                        return
                    sraw = open(os.path.join(root, sib), "rb").read()
                    open(path, "wb").write(sraw)
                    if kind.startswith(("manifest#", "data#")):
                        open(os.path.join(root, sib), "wb").write(raw)
                # independent view after the damage
                indep = self._independent(root, baseline)
                fkind = kind.split("#")[0]
                env_old = os.environ.get("DATASHARD_VERIFY_CHECKSUMS")
                if dmg == "swap_env":
                    os.environ["DATASHARD_VERIFY_CHECKSUMS"] = case["arg"]
                    res.count("env_spellings_tried")
                for (api, opts), hmode in [(ao, hm) for hm in (("fresh", "second") if dmg.startswith("toctou") else ("fresh", "warm")) for ao in APIS]:
                    key = (api, repr(opts))
                    if dmg == "swap_env" and ("verify_checksums" in opts or api == "row_count"):
                        continue
                    if hmode == "warm" and dmg in ("transient", "toctou_flip", "toctou_swap"):
                        continue
                    if dmg in ("toctou_flip", "toctou_swap"):
                        if not (opts.get("verify_checksums", True) and api != "row_count"):
                            continue
                        open(path, "wb").write(raw)
                        state = {"fired": 0, "n": 0}
                        if dmg == "toctou_swap":
                            flipped = bytearray(open(os.path.join(root, self._sibling(root, tg, kind)), "rb").read())
                        else:
                            flipped = bytearray(raw)
                            flipped[min(case["arg"], len(flipped) - 1)] ^= 0x55

                        def hook(o: Any, state: Dict[str, int] = state, flipped: bytes = bytes(flipped)) -> None:
                            # variant "after1": right after the first access call returned; variant "before2":
                            # right before a second access of the same file within this one read call
                            if state["fired"]:
                                return
                            p = (o.path or "")
                            if o.name in ("local.read_file", "local.open_file", "local.open_seekable",
                                          "data.open_parquet_source") and p.lstrip("/") == rel:
                                if o.phase == "before":
                                    state["n"] += 1
                                if (hmode == "fresh" and o.phase == "after") or (hmode == "second" and o.phase == "before" and state["n"] == 2):
                                    state["fired"] = 1
                                    tmp = path + ".toctou"
                                    open(tmp, "wb").write(flipped)
                                    os.replace(tmp, path)      # a new inode: an already open stream keeps the old bytes

                        ip.after.append(hook)
                        ip.before.append(hook)
                    if dmg == "transient":
                        state = {"fired": 0}

                        def hook(o: Any, state: Dict[str, int] = state) -> None:
                            if o.phase != "before" or state["fired"]:
                                return
                            p = (o.path or "")
                            if o.name in ("local.read_file", "local.open_file", "local.open_seekable",
                                          "data.open_parquet_source") and p.lstrip("/") == rel:
                                state["fired"] = 1
                                raise OSError("injected transient read error")

                        ip.before.append(hook)
                    try:
                        try:
                            got = ("ok", call(root, api, opts, warm if hmode == "warm" else None))
                        except Exception as e:  # noqa
                            got = ("raise", type(e).__name__)
                    finally:
                        if hook is not None and hook in ip.before:
                            ip.before.remove(hook)
                        if hook is not None and hook in ip.after:
                            ip.after.remove(hook)
                    res.evals += 1
                    if dmg in ("toctou_flip", "toctou_swap"):
                        res.count(f"verified_read_accessed_data_file_{min(state['n'], 3)}x")
                        if not state["fired"]:
                            res.count("toctou_not_reached")
                            continue
                        res.count("toctou_applied")
                        res.count("judged")
                        if got[0] == "raise":
                            res.count("raised")
                            res.key(["data", dmg, api, "raise"])
                        elif got[1] == baseline[key]:
                            res.count("returned_undamaged")
                            res.key(["data", dmg, api, "same"])
                        else:
                            res.violation(f"unverified-bytes-decoded:{api}",
                                          f"{api}{opts}: the data file changed between two accesses of one read; rows were decoded from "
                                          f"bytes that were never verified ({len(got[1])} rows, differing from the verified content)",
                                          {"target": kind, "file": rel, "damage": dmg, "arg": case["arg"], "api": api, "options": opts})
                        continue
                    if dmg == "transient":
                        if not state["fired"]:
                            res.count("transient_not_reached")
                            continue
                        res.count("transient_injected")
                    base = baseline[key]
                    verify_on = opts.get("verify_checksums", True) and api != "row_count"
                    wit = {"target": kind, "file": rel, "damage": dmg, "arg": case["arg"], "api": api, "handle": hmode,
                           "options": opts, "outcome": got[0],
                           "result": (got[1] if got[0] == "raise" else (got[1] if isinstance(got[1], int) else len(got[1]))),
                           "undamaged": base if isinstance(base, int) else len(base), "independent_reader": indep}
                    bytes_changed = dmg in ("truncate", "flip", "garbage", "empty_json", "swap", "swap_env")
                    if got[0] == "raise":
                        res.count("raised")
                        res.count("judged")
                        if fkind == "data" and verify_on and bytes_changed:
                            res.count("checksum_detected")
                        res.key([fkind, dmg, api, "raise"])
                        continue
                    # returned something
                    if fkind == "data" and verify_on and bytes_changed and api not in ("row_count",):
                        res.count("judged")
                        res.violation(f"checksum-miss:{dmg}:{api}:{hmode}-handle",
                                      f"data file bytes changed ({dmg}) but {api}{opts} with verification on returned rows ({hmode} handle)", wit)
                        continue
                    if got[1] == base:
                        res.count("judged")
                        res.count("returned_undamaged")
                        res.key([fkind, dmg, api, "same"])
                        continue
                    if indep == "different-valid" and dmg in ("flip", "swap", "empty_json", "field"):
                        res.count("different_valid_not_judged")
                        continue
                    if fkind == "data" and not verify_on and dmg in ("flip", "swap") and api != "row_count":
                        res.count("unverified_flip_not_judged")
                        continue
                    res.count("judged")
                    res.violation(f"wrong-answer:{fkind}:{dmg}",
                                  f"[{hmode} handle] {api}{opts} returned {wit['result']} (undamaged {wit['undamaged']}) after {dmg} of {kind}", wit)
                if len(res.samples) < 1:
                    res.sample({"file": rel, "kind": kind, "damage": dmg, "arg": case["arg"],
                                "independent_reader": indep, "apis_run": len(APIS)})
                if dmg == "swap_env":
                    if env_old is None:
                        os.environ.pop("DATASHARD_VERIFY_CHECKSUMS", None)
                    else:
                        os.environ["DATASHARD_VERIFY_CHECKSUMS"] = env_old
        finally:
            ip.uninstall()

    def _sibling(self, root: str, tg: Dict[str, str], kind: str) -> Optional[str]:
        base = kind.split("#")[0]
        if base in ("manifest", "data"):
            sibs = [p for k, p in tg.items() if k.startswith(base + "#") and k != kind]
            return sibs[0] if sibs else None
        if base == "metadata":
            others = [n for _v, n in reader.metadata_versions(reader.Blobs.local(root))
                      if "metadata/" + n != tg[kind]]
            return "metadata/" + others[-1] if others else None
        if base == "manifest_list":
            d = os.path.join(root, "metadata/manifests")
            others = sorted(f for f in os.listdir(d) if f.startswith("manifest_list_")
                            and "metadata/manifests/" + f != tg[kind])
            return "metadata/manifests/" + others[0] if others else None
        return None

    def _independent(self, root: str, baseline: Dict[Any, Any]) -> str:
        try:
            tv = reader.read_table(reader.Blobs.local(root), strict=True)
            rows = tv.current_rows() if tv.meta is not None else None
        except Exception:
            return "unreadable"
        if tv.meta is None:
            return "unreadable"
        return "same" if rows == baseline[("scan", "{}")] else "different-valid"


if __name__ == "__main__":
    raise SystemExit(C14().main())
