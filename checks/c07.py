"""C07 - garbage collection fails closed.

Fault enumeration: a dry run of collect() on a prepared table records its L1
storage calls; each call is then made to fail (once / persistently, several
error kinds), every metadata-plane file of every retained snapshot is damaged
in 5 ways, listings are made to return escaping paths, markers are made
unreadable / un-stat-able / undeletable.  Oracle: raised => file set unchanged;
returned => nothing reachable or in flight deleted; reachability unknowable
(per the independent reader) => must raise.
"""
from __future__ import annotations

import json
import os
import random
import time
from typing import Any, Dict, List, Optional, Set, Tuple

from vf import history, reader, tables
from vf.common import CaseResult, Check, Scratch, rng_for
from vf.fakes3 import FakeS3Store, S3Env, client_error
from vf.interpose import FaultPlan, Interposer, OpLog

GRACE_MS = 3600000
DAMAGE = ["missing", "empty", "truncated", "random", "json_wrong", "snapshot_manifest_list_null", "snapshot_manifest_list_empty",
          "snapshot_manifest_list_missing_key"]


def build(h: history.History, rng: random.Random) -> Dict[str, Any]:
    """>=3 retained snapshots, a rewritten manifest, old orphans, an open
    transaction with aged files, an in-commit manifest protected by a marker."""
    # the failed commit leaves an uncommitted metadata file carrying the SAME version number as the
    # last committed one (what a crashed or beaten writer leaves behind)
    for op in [("append", 2), ("multi", [1, 1]), ("append", 2), ("delete", 1), ("fail_commit", 1), ("append", 1)]:
        out = h.apply(op)
        if op[0] == "fail_commit":
            assert not out["ok"], out
            continue
        assert out["ok"], out
        h.observe(op, True)
    out = h.apply(("open_tx", 2))
    assert out["ok"], out
    out = h.apply(("open_tx_sub",))         # + an open transaction with pre-built files in data/<partition>/
    assert out["ok"], out
    protected = "metadata/manifests/manifest_9999_inflight.avro"
    marker = "metadata/inflight/manifest_9999_inflight.avro.inflight"
    orphans = ["data/orphan_old.parquet", "metadata/manifests/orphan_old.avro"]
    st = h.table.storage
    st.write_file(protected, b"in-commit manifest")
    for o in orphans:
        st.write_file(o, b"orphan")
    h.age_all(7200)
    # markers are fresh (a live transaction)
    st.write_file(marker, json.dumps({"file_path": protected}).encode())
    for tx, _ids in h.open_txs:
        for m in tx._inflight_markers:
            if h.backend == "local":
                os.utime(os.path.join(h.root, m), None)
            else:
                h.store.set_age(h.s3env.bucket, h.s3env.full_prefix(h.table_path) + "/" + m, 0)
    F = set(h.inflight_files()) | {protected}
    tv = h.view()
    return {"F": F, "R": set(tv.reachable()), "orphans": orphans, "tv": tv, "marker": marker,
            "protected": protected}


class C07(Check):
    pid = "C07"
    level = "fault_enumeration"
    exhaustive = True
    rule = ("scenario: table with 5 retained snapshots incl. a rewritten manifest, 2 old orphans, an open transaction "
            "with 2 aged data files, an in-commit manifest protected only by its marker; (A) every L1 storage call of "
            "collect() (measured by a dry run) x {fail once, fail persistently} x error kinds (OSError; on the S3 "
            "double transient 503, permanent AccessDenied); (B) every manifest list / manifest of every retained "
            "snapshot and the current metadata file x {missing, empty, truncated, random bytes, valid-JSON-but-wrong}; "
            "(C) listings returning '../x', absolute outside paths; (D) marker read/stat/delete faults; "
            "non-trivial = injected fault actually fired or damage applied; distinct by (class, op/file, kind)")
    assumptions = [
        "R (reachable) and F (in flight) are computed before the fault by the independent reader / the harness",
        "damage that the independent Avro/JSON parser still accepts as different valid content is counted, not judged",
    ]
    require = {"faults_fired": 50, "damage_applied": 20, "gc_raised_clean": 10, "gc_returned_safe": 10}

    _oplists: Dict[str, List[Tuple[str, Optional[str], int]]] = {}

    def _oplist(self, backend: str, seed: int) -> List[Tuple[str, Optional[str], int]]:
        """dry run: the L1 calls one collect() makes on the prepared table."""
        if backend not in self._oplists:
            oplist: List[Tuple[str, Optional[str], int]] = []

            def dry(h: history.History, ip: Interposer, store: Any, rng: Any) -> None:
                build(h, rng)
                gc = self._mkgc(h)
                log = OpLog()
                ip.before.append(log.hook)
                ok, err = self._collect(h, gc)
                ip.before.remove(log.hook)
                assert ok, err
                oplist.extend(o for o in log.ops if o[2] == 0)

            self._with_table({"backend": backend, "seed": seed}, dry)
            self._oplists[backend] = oplist
        return self._oplists[backend]

    def gen_cases(self, tier: str, seed: int):
        from vf.common import setup_repo_path

        setup_repo_path()
        for be in ["local", "s3"]:
            n = len(self._oplist(be, seed))
            modes = ["once", "persistent"] + (["permanent"] if be == "s3" else [])
            for mode in modes:
                for idx in range(n):
                    yield {"kind": "enum_faults", "backend": be, "seed": seed, "mode": mode, "idx": idx}
            for dmg in DAMAGE:
                yield {"kind": "damage", "backend": be, "seed": seed, "damage": dmg}
            yield {"kind": "listing", "backend": be, "seed": seed}
            yield {"kind": "marker", "backend": be, "seed": seed}

    # ------------------------------------------------------------------
    def _with_table(self, case: Any, fn: Any) -> None:
        rng = rng_for(case["seed"], "c07")
        ip = Interposer().install()
        try:
            with Scratch("c07") as d:
                if case["backend"] == "local":
                    h = history.History(str(d / "t"), rng, ip=ip)
                    fn(h, ip, None, rng)
                else:
                    store = FakeS3Store()
                    with S3Env(store) as env:
                        h = history.History("", rng, backend="s3", store=store, s3env=env, table_path="wh/t7", ip=ip)
                        fn(h, ip, store, rng)
        finally:
            ip.uninstall()

    def _mkgc(self, h: history.History) -> Any:
        from datashard.garbage_collector import GarbageCollector

        t = h.ds.load_table(h.table_path)
        return GarbageCollector(t.table_path, t.metadata_manager, t.file_manager)

    def _collect(self, h: history.History, gc: Any = None) -> Tuple[bool, str]:
        try:
            gc = gc or self._mkgc(h)   # opening the table may already fail on damaged metadata
            gc.collect(GRACE_MS)
            return True, ""
        except Exception as e:  # noqa
            return False, f"{type(e).__name__}: {str(e)[:160]}"

    def _judge(self, h: history.History, sc: Dict[str, Any], before: Dict[str, str], returned: bool, err: str,
               res: CaseResult, sig_tail: str, wit: Dict[str, Any], must_raise: bool = False) -> None:
        after = reader.file_fingerprint(h.blobs())
        deleted = set(before) - set(after)
        changed = {k for k in before if k in after and before[k] != after[k]}
        wit = dict(wit, deleted=sorted(deleted), gc_returned=returned, gc_error=err)
        # the marker directory is bookkeeping: stale-marker sweeps are not "files deleted"
        deleted_data = {p for p in deleted if not p.startswith("metadata/inflight/")}
        res.evals += 1
        bad = deleted_data & (sc["R"] | sc["F"])
        if not returned:
            # the property is a disjunction: "raises without deleting any file, OR keeps the
            # affected protection in force".  A raise after true orphans were already removed
            # keeps every protection in force: counted and reported, not a violation.
            if bad or (changed & (sc["R"] | sc["F"])):
                res.violation(f"raised-but-deleted-protected:{sig_tail}",
                              f"collect raised ({err}) after deleting protected {sorted(bad)[:3]}", wit)
            elif deleted_data:
                res.count("gc_raised_after_deleting_only_orphans")
            else:
                res.count("gc_raised_clean")
            return
        if bad:
            kind = "reachable" if deleted_data & sc["R"] else "inflight"
            res.violation(f"deleted-{kind}:{sig_tail}",
                          f"collect returned after deleting protected file(s) {sorted(bad)[:3]}", wit)
            return
        if must_raise:
            res.violation(f"unknowable-but-returned:{sig_tail}",
                          "reachability was unknowable (independent reader cannot parse a reachable file) but collect returned", wit)
            return
        res.count("gc_returned_safe")

    # ------------------------------------------------------------------
    def run_case(self, case: Any, res: CaseResult, tier: str) -> None:
        getattr(self, "_" + case["kind"])(case, res)

    def _exc(self, case: Any) -> Any:
        if case["backend"] == "s3":
            if case["mode"] == "permanent":
                return lambda: client_error("AccessDenied", "Op", 403)
            return lambda: client_error("ServiceUnavailable", "Op", 503)
        return lambda: OSError("injected I/O error")

    def _enum_faults(self, case: Any, res: CaseResult) -> None:
        oplist = self._oplist(case["backend"], case["seed"])
        res.count("l1_ops_in_collect", 1)
        for idx, (name, path, _d) in [(case["idx"], oplist[case["idx"]])]:
            def one(h: history.History, ip: Interposer, store: Any, rng: Any) -> None:
                sc = build(h, rng)
                before = reader.file_fingerprint(h.blobs())
                gc = self._mkgc(h)
                persistent = case["mode"] in ("persistent", "permanent")
                plan = FaultPlan(idx, self._exc(case), match=lambda o: o.depth == 0, persistent=False)
                if persistent:
                    # persistently fail THIS op on THIS path (not every later op)
                    target = {"n": None}

                    def hook(o: Any, plan: FaultPlan = plan) -> None:
                        if o.phase != "before" or o.depth != 0:
                            return
                        plan.count += 1
                        if plan.count == idx:
                            target["n"] = (o.name, o.path)
                        if target["n"] == (o.name, o.path):
                            plan.fired.append(o.brief())
                            raise plan.exc_factory()

                    ip.before.append(hook)
                    used = hook
                else:
                    ip.before.append(plan.hook)
                    used = plan.hook
                try:
                    import datashard.s3_consistency as s3c
                    real_sleep = s3c.time.sleep
                    s3c.time.sleep = lambda s: None  # retry back-off is virtual
                    try:
                        ok, err = self._collect(h, gc)
                    finally:
                        s3c.time.sleep = real_sleep
                finally:
                    ip.before.remove(used)
                if plan.fired:
                    res.count("faults_fired")
                    res.key(["fault", case["backend"], case["mode"], name, _pclass(path)])
                else:
                    res.inconclusive.append(f"fault #{idx} ({name} {path}) never fired")
                cls = f"{name.split('.')[-1]}:{_pclass(path)}:{case['mode']}"
                self._judge(h, sc, before, ok, err, res, cls,
                            {"backend": case["backend"], "fault_index": idx, "op": name, "path": path,
                             "mode": case["mode"], "fired": plan.fired[:3]})
                if len(res.samples) < 2:
                    res.sample({"fault": f"{case['mode']} failure of L1 call #{idx} {name}({path})",
                                "backend": case["backend"], "collect_returned": ok, "error": err})

            self._with_table(case, one)

    def _damage(self, case: Any, res: CaseResult) -> None:
        targets: List[str] = []

        def probe(h: history.History, ip: Interposer, store: Any, rng: Any) -> None:
            sc = build(h, rng)
            tv = sc["tv"]
            seen = set()
            for sv in tv.snapshots:
                for p in [reader.norm(sv.manifest_list)] + [reader.norm(m) for m in sv.manifests]:
                    if p not in seen:
                        seen.add(p)
                        targets.append(p)
            targets.append("metadata/" + tv.pointer)

        self._with_table(case, probe)
        for ti, _t in enumerate(targets):
            def one(h: history.History, ip: Interposer, store: Any, rng: Any) -> None:
                sc = build(h, rng)
                tv = sc["tv"]
                plist: List[str] = []
                seen = set()
                for sv in tv.snapshots:
                    for p in [reader.norm(sv.manifest_list)] + [reader.norm(m) for m in sv.manifests]:
                        if p not in seen:
                            seen.add(p)
                            plist.append(p)
                plist.append("metadata/" + tv.pointer)
                target = plist[ti]
                raw = h.blobs().get(target)
                dmg = case["damage"]
                if dmg == "missing":
                    new = None
                elif dmg == "empty":
                    new = b""
                elif dmg == "truncated":
                    new = raw[: max(1, len(raw) // 3)]
                elif dmg == "random":
                    new = bytes(rng.getrandbits(8) for _ in range(64))
                elif dmg.startswith("snapshot_manifest_list_"):
                    # still valid JSON, but an OLDER retained snapshot no longer says where its manifest list is
                    if not target.endswith(".metadata.json"):
                        return
                    doc = json.loads(raw)
                    snaps = doc.get("snapshots") or []
                    victim = next((s_ for s_ in snaps if s_.get("snapshot-id", s_.get("snapshot_id")) != doc.get("current-snapshot-id", doc.get("current_snapshot_id"))), None)
                    if victim is None:
                        return
                    key = "manifest-list" if "manifest-list" in victim else "manifest_list"
                    if dmg.endswith("_null"):
                        victim[key] = None
                    elif dmg.endswith("_empty"):
                        victim[key] = ""
                    else:
                        victim.pop(key, None)
                    new = json.dumps(doc).encode()
                else:
                    new = b'{"unexpected": 1}'
                self._write_raw(h, target, new)
                res.count("damage_applied")
                before = reader.file_fingerprint(h.blobs())
                is_meta = target.endswith(".metadata.json")
                # does the independent reader still parse it?
                unknowable = False
                try:
                    if is_meta:
                        reader.read_metadata_file(h.blobs(), tv.pointer)
                    elif "manifest_list" in target:
                        reader.read_manifest_list(h.blobs(), target)
                    else:
                        reader.read_manifest(h.blobs(), target)
                except reader.ReadError:
                    unknowable = True
                if not unknowable:
                    res.count("damage_still_parses")
                ok, err = self._collect(h)
                kind = "metadata" if is_meta else ("manifest_list" if "manifest_list" in target else "manifest")
                res.key(["damage", case["backend"], dmg, kind])
                self._judge(h, sc, before, ok, err, res, f"{kind}:{dmg}",
                            {"backend": case["backend"], "damaged": target, "damage": dmg,
                             "independent_reader_parses": not unknowable},
                            must_raise=unknowable)
                if len(res.samples) < 2:
                    res.sample({"damaged_file": target, "damage": dmg, "collect_returned": ok, "error": err})

            self._with_table(case, one)

    def _write_raw(self, h: history.History, rel: str, data: Optional[bytes]) -> None:
        if h.backend == "local":
            p = os.path.join(h.root, rel)
            if data is None:
                os.remove(p)
            else:
                with open(p, "wb") as f:
                    f.write(data)
                t = time.time() - 7200
                os.utime(p, (t, t))
        else:
            key = h.s3env.full_prefix(h.table_path) + "/" + rel
            if data is None:
                h.store.objects.pop((h.s3env.bucket, key), None)
            else:
                h.store.put_object(Bucket=h.s3env.bucket, Key=key, Body=data)
                h.store.set_age(h.s3env.bucket, key, 7200)

    def _listing(self, case: Any, res: CaseResult) -> None:
        inj = [("data", "../elsewhere/x.parquet"), ("data", ".."), ("metadata/manifests", "../../outside.avro"),
               ("data", "/etc/passwd"), ("metadata/inflight", "../m.inflight"), ("data", "data/../../x")]
        for prefix, bad in inj:
            def one(h: history.History, ip: Interposer, store: Any, rng: Any) -> None:
                sc = build(h, rng)
                before = reader.file_fingerprint(h.blobs())
                fired: List[str] = []

                def after(o: Any) -> None:
                    if o.phase == "after" and o.name.endswith("list_files") and o.path == prefix and o.exc is None:
                        o.result.append(bad)
                        fired.append(bad)

                # the wrapper returns op.result, so mutating the list in place injects the path
                ip.after.append(after)
                try:
                    ok, err = self._collect(h)
                finally:
                    ip.after.remove(after)
                if fired:
                    res.count("faults_fired")
                    res.key(["listing", case["backend"], prefix, bad])
                else:
                    res.inconclusive.append(f"listing injection for {prefix} never fired")
                escaping = bad.startswith("..") and prefix != "metadata/inflight"
                self._judge(h, sc, before, ok, err, res, f"listing:{_pclass(bad)}",
                            {"backend": case["backend"], "prefix": prefix, "injected": bad},
                            must_raise=escaping)

            self._with_table(case, one)

    def _marker_payloads(self, case: Any, res: CaseResult) -> None:
        """damaged payload of the marker that protects an in-commit manifest / an open transaction's data file"""
        for pname, payload in MARKER_PAYLOADS:
            for which in ("manifest_marker", "data_marker", "subdir_data_marker"):
                def one(h: history.History, ip: Interposer, store: Any, rng: Any) -> None:
                    sc = build(h, rng)
                    if which == "manifest_marker":
                        target = sc["marker"]
                    elif which == "subdir_data_marker":
                        target = h.open_txs[1][0]._inflight_markers[0]
                    else:
                        target = h.open_txs[0][0]._inflight_markers[0]
                    self._write_raw(h, target, payload)
                    # the marker itself stays fresh (a live transaction)
                    if h.backend == "local":
                        os.utime(os.path.join(h.root, target), None)
                    else:
                        h.store.set_age(h.s3env.bucket, h.s3env.full_prefix(h.table_path) + "/" + target, 0)
                    res.count("damage_applied")
                    before = reader.file_fingerprint(h.blobs())
                    ok, err = self._collect(h)
                    res.key(["marker_payload", case["backend"], pname, which])
                    self._judge(h, sc, before, ok, err, res, f"marker-payload:{pname}:{which}",
                                {"backend": case["backend"], "marker": target, "payload": repr(payload)})

                self._with_table(case, one)

    def _scandir_faults(self, case: Any, res: CaseResult) -> None:
        """the directory walk itself fails (EACCES/EIO from scandir) - a failure one level below list_files()"""
        if case["backend"] != "local":
            return
        for sub in ("metadata/inflight", "data", "metadata/manifests"):
            def one(h: history.History, ip: Interposer, store: Any, rng: Any) -> None:
                sc = build(h, rng)
                before = reader.file_fingerprint(h.blobs())
                target = os.path.realpath(os.path.join(h.root, sub))
                real_scandir = os.scandir
                fired: List[str] = []

                def scandir(path: Any = ".") -> Any:
                    try:
                        rp = os.path.realpath(os.fsdecode(path))
                    except Exception:
                        rp = ""
                    if rp == target:
                        fired.append(rp)
                        raise PermissionError(13, "Permission denied (injected)", rp)
                    return real_scandir(path)

                os.scandir = scandir  # type: ignore
                try:
                    ok, err = self._collect(h)
                finally:
                    os.scandir = real_scandir  # type: ignore
                if fired:
                    res.count("faults_fired")
                    res.key(["scandir", sub])
                else:
                    res.inconclusive.append(f"scandir fault for {sub} never fired")
                self._judge(h, sc, before, ok, err, res, f"scandir-error:{_pclass(sub)}",
                            {"backend": "local", "directory_walk_fails": sub})

            self._with_table(case, one)

    def _marker(self, case: Any, res: CaseResult) -> None:
        self._marker_payloads(case, res)
        self._scandir_faults(case, res)
        modes = [("read_file", "metadata/inflight"), ("open_file", "metadata/inflight"),
                 ("get_modified_time", "metadata/inflight"),
                 ("delete_file", "metadata/inflight"), ("list_files", "metadata/inflight"),
                 ("exists", "metadata/inflight")]
        for meth, pre, errkind in [(m_, p_, k_) for (m_, p_) in modes for k_ in ("generic", "notfound")]:
            if errkind == "notfound" and meth in ("list_files", "exists", "delete_file"):
                continue
            for persistent in (False, True):
                def one(h: history.History, ip: Interposer, store: Any, rng: Any) -> None:
                    sc = build(h, rng)
                    before = reader.file_fingerprint(h.blobs())
                    fired: List[str] = []
                    state = {"n": 0}

                    def hook(o: Any) -> None:
                        if o.phase == "before" and o.depth == 0 and o.name.endswith("." + meth) and o.path \
                                and o.path.lstrip("/").startswith(pre):
                            state["n"] += 1
                            if persistent or state["n"] == 1:
                                fired.append(o.brief())
                                if errkind == "notfound":
                                    # listed a moment ago, "not found" now (the marker's transaction just ended, or a
                                    # listing that runs ahead of the object): nothing is known about the file it protects
                                    raise FileNotFoundError(2, "No such file or directory (injected)", o.path)
                                if case["backend"] == "s3":
                                    raise client_error("AccessDenied", "Op", 403)
                                raise OSError("injected marker fault")

                    ip.before.append(hook)
                    try:
                        ok, err = self._collect(h)
                    finally:
                        ip.before.remove(hook)
                    if fired:
                        res.count("faults_fired")
                        res.key(["marker", case["backend"], meth, errkind, persistent])
                    else:
                        res.count("marker_fault_not_reached")
                    self._judge(h, sc, before, ok, err, res, f"marker-{meth}" + ("-notfound" if errkind == "notfound" else ""),
                                {"backend": case["backend"], "marker_op": meth, "error": errkind, "persistent": persistent,
                                 "fired": fired[:3]})

                self._with_table(case, one)


MARKER_PAYLOADS = [("empty", b""), ("whitespace", b"  \n"), ("garbage", b"\xff\x00garbage"), ("empty_object", b"{}"),
                   ("non_string_target", b'{"file_path": 5}'), ("list", b"[]"), ("truncated_json", b'{"file_path": "metadata/mani'),
                   ("null_target", b'{"file_path": null}')]


def _pclass(path: Optional[str]) -> str:
    if path is None:
        return "-"
    p = path.lstrip("/")
    if p.startswith("metadata/inflight"):
        return "marker"
    if "manifest_list" in p:
        return "manifest_list"
    if p.startswith("metadata/manifests"):
        return "manifest" if p != "metadata/manifests" else "manifests-dir"
    if p.endswith(".metadata.json"):
        return "metadata"
    if p.startswith("metadata.version-hint"):
        return "pointer"
    if p.startswith("data"):
        return "data" if p != "data" else "data-dir"
    if p.startswith(".."):
        return "escaping"
    return "other"


if __name__ == "__main__":
    raise SystemExit(C07().main())
