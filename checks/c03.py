"""C03 - a crash at any point leaves the table in the pre- or post-operation state.

Fault enumeration over crash points: a dry run in a child process records every
effectful OS-level call an operation makes under the table root; then the operation
is re-run in a FRESH child that dies (os._exit - no finally, no rollback, flock
dropped by the kernel) immediately before call #k, for every k (plus torn-write and
truncated-temp-file variants).  The parent then reopens the table: state in
{pre, post} (post only if the pointer moved), everything readable, a follow-up append
works, a collection removes only leftovers.
"""
from __future__ import annotations

import json
import os
import shutil
import subprocess
import sys
from typing import Any, Dict, List, Optional, Tuple

from vf import reader, tables
from vf.common import VERIF, CaseResult, Check, Scratch

SCENARIOS = ["create", "append", "multi", "delete", "delete_append", "expire", "delsnap_old", "delsnap_current", "gc"]


def build_pre(root: str, scenario: str, prior: int) -> None:
    import datashard as ds

    if scenario == "create":
        os.makedirs(os.path.dirname(root), exist_ok=True)
        return
    t = ds.create_table(root, schema=tables.std_schema())
    import time
    for i in range(prior):
        t.append_records(tables.rows([10 * i + 1, 10 * i + 2]))
        time.sleep(0.002)
    if scenario == "gc":
        # leftovers of an earlier dead operation + a failed commit's files
        for rel in ("data/orphan_a.parquet", "metadata/manifests/orphan_m.avro", "metadata/inflight/orphan_a.parquet.inflight"):
            p = os.path.join(root, rel)
            os.makedirs(os.path.dirname(p), exist_ok=True)
            open(p, "wb").write(b"leftover")
        tables.age_tree(root, 200000)


def child(root: str, scenario: str, k: int, variant: str) -> Tuple[int, str]:
    p = subprocess.run([sys.executable, "-m", "vf.procs.crashrun", root, scenario, str(k), variant],
                       cwd=str(VERIF), capture_output=True, timeout=120,
                       env=dict(os.environ, PYTHONHASHSEED="0"))
    return p.returncode, p.stdout.decode(errors="replace") + p.stderr.decode(errors="replace")[-800:]


def expected_post(scenario: str, pre: Dict[str, Any]) -> Dict[str, Any]:
    rows = list(pre["rows"])
    nsnap = pre["nsnap"]
    new = lambda ids: reader.canon_rows(tables.rows(ids))   # noqa
    if scenario == "append":
        return {"rows": sorted(rows + new([9001, 9002])), "nsnap": nsnap + 1}
    if scenario == "multi":
        return {"rows": sorted(rows + new([9001, 9002, 9003])), "nsnap": nsnap + 1}
    if scenario == "delete":
        return {"rows": sorted(r for r in rows if r not in pre["first_file_rows"]), "nsnap": nsnap + 1}
    if scenario == "delete_append":
        return {"rows": sorted([r for r in rows if r not in pre["first_file_rows"]] + new([9001])), "nsnap": nsnap + 1}
    if scenario == "expire":
        return {"rows": rows, "nsnap": 1 if nsnap else 0}
    if scenario == "delsnap_old":
        return {"rows": rows, "nsnap": nsnap - 1}
    if scenario == "delsnap_current":
        return {"rows": pre["rows_before_last"], "nsnap": nsnap - 1}
    if scenario == "gc":
        return {"rows": rows, "nsnap": nsnap}
    raise ValueError(scenario)


def observe(root: str) -> Dict[str, Any]:
    tv = reader.read_table(reader.Blobs.local(root))
    if tv.meta is None:
        return {"absent": True, "error": tv.error, "pointer": tv.pointer}
    cur = tv.current()
    errs = [s.error for s in tv.snapshots if s.error]
    return {"absent": False, "pointer": tv.pointer, "uuid": tv.uuid, "nsnap": len(tv.snapshots),
            "rows": (cur.rows if cur is not None else []) if not errs else None, "errors": errs,
            "reach": tv.reachable(), "ids": sorted(s.id for s in tv.snapshots)}


class C03(Check):
    pid = "C03"
    level = "fault_enumeration"
    exhaustive = True
    rule = ("scenarios {create, append, multi-append txn, delete_files, delete+append, expire_snapshots, delete_snapshot "
            "(old / current), collect with leftovers} on tables with 0/1/3 prior snapshots; a dry run in a child process "
            "measures every effectful OS-level call under the table root (open-for-write, write, fsync, close, replace, "
            "remove, mkdir, flock, and the Python-visible stages of pyarrow's parquet writer); the child is re-run and "
            "killed with os._exit immediately before call #k for EVERY k, plus a torn-write variant at every write and a "
            "truncated-temp-parquet variant; object storage: the operation's thread is parked for ever before its k-th S3 "
            "request for EVERY k (no finally/rollback/release runs; the lock object lapses by lease); non-trivial = a crash after which leftovers (temp files, markers, uncommitted "
            "metadata, unreferenced data) exist; distinct by (scenario, prior, k, variant)")
    assumptions = [
        "process-crash model: completed syscalls persist (power loss is C16's subject)",
        "a crash inside pyarrow's C++ write of the temporary parquet file is emulated by truncating that temp file",
        "interrupted creation: 'pre' means no committed data and the path is creatable/openable as an empty table",
    ]
    require = {"crash_points": 300, "post_state_seen": 20, "pre_state_seen": 100, "followup_appends": 300,
               "gc_after_crash": 300}
    worker_timeout_s = {"quick": 1500, "thorough": 5400}

    _counts: Dict[str, int] = {}

    def _ncalls(self, scenario: str, prior: int) -> Tuple[int, List[Any]]:
        key = f"{scenario}:{prior}"
        if key not in self._counts:
            with Scratch("c03d") as d:
                root = str(d / "t")
                build_pre(root, scenario, prior)
                rc, out = child(root, scenario, -1, "clean")
                calls: List[Any] = []
                for line in out.splitlines():
                    if line.startswith("CALLS "):
                        calls = json.loads(line[6:])
                if rc != 0 or not calls:
                    raise RuntimeError(f"dry run failed for {key}: rc={rc} {out[-500:]}")
                self._counts[key] = len(calls)
                self._counts[key + ":calls"] = calls  # type: ignore
        return self._counts[key], self._counts[key + ":calls"]  # type: ignore

    def gen_cases(self, tier: str, seed: int):
        from vf.common import setup_repo_path

        setup_repo_path()
        for sc in SCENARIOS:
            priors = [0] if sc == "create" else ([0, 1, 3] if sc in ("append", "multi") else [3])
            if tier == "quick" and sc in ("append", "multi"):
                priors = [0, 3] if sc == "append" else [1]
            if sc in ("delete", "delete_append", "expire", "delsnap_old", "delsnap_current") and tier == "thorough":
                priors = [2, 3]
            for prior in priors:
                n, calls = self._ncalls(sc, prior)
                ks = list(range(n + 1))
                group = 6
                for i in range(0, len(ks), group):
                    yield {"scenario": sc, "prior": prior, "ks": ks[i:i + group], "variant": "clean", "n": n}
                writes = [i for i, c in enumerate(calls) if c[0] == "write"]
                for i in range(0, len(writes), group):
                    yield {"scenario": sc, "prior": prior, "ks": writes[i:i + group], "variant": "torn", "n": n}
                pq = [i for i, c in enumerate(calls) if c[0] in ("parquet.closed", "parquet.close", "fsync") and
                      (c[0] != "fsync" or c[1].endswith(".parquet"))]
                if pq:
                    yield {"scenario": sc, "prior": prior, "ks": pq, "variant": "trunc", "n": n}
        # object storage: the operation's thread is parked for ever before its k-th S3 request, for every k
        for sc in SCENARIOS:
            for prior in ([0] if sc == "create" else ([0, 3] if sc == "append" else [3])):
                n = self._s3_nreq(sc, prior)
                ks = list(range(n + 1))
                group = 12
                for i in range(0, len(ks), group):
                    yield {"backend": "s3", "scenario": sc, "prior": prior, "ks": ks[i:i + group], "variant": "s3", "n": n}

    # ---- object storage -------------------------------------------------------------------
    def _s3_env(self) -> Any:
        """context: S3 double + virtual time for the lock / retry modules + no heartbeat thread"""
        import contextlib
        import time as _t

        import datashard.lock_provider as lpm
        import datashard.s3_consistency as s3c
        from vf.fakes3 import FakeS3Store, S3Env
        from vf.interpose import GlobalPatch, ModuleProxy

        @contextlib.contextmanager
        def cm() -> Any:
            store = FakeS3Store()
            store.keep_log = False
            with S3Env(store), GlobalPatch() as gp:
                proxy = ModuleProxy(_t, {"sleep": lambda x: store.clock.advance(float(x)), "time": store.clock.now,
                                         "monotonic": store.clock.now})
                gp.set(lpm, "time", proxy)
                gp.set(s3c, "time", proxy)
                gp.set(lpm.S3LockProviderBase, "_start_heartbeat", lambda self_: None)
                yield store
        return cm()

    def _s3_nreq(self, scenario: str, prior: int) -> int:
        from vf import s3crash

        key = f"s3:{scenario}:{prior}"
        if key not in self._counts:
            with self._s3_env() as store:
                s3crash.build_pre(store, scenario, prior)
                r = s3crash.run_until(store, s3crash.operation(scenario), -1)
                if r["error"] or r["parked"]:
                    raise RuntimeError(f"S3 dry run of {key} failed: {r}")
                self._counts[key] = len(r["requests"])
        return self._counts[key]

    def _s3(self, case: Any, res: CaseResult) -> None:
        import datashard as ds
        from datashard.garbage_collector import GarbageCollector
        from vf import s3crash

        sc, prior = case["scenario"], case["prior"]
        for k in case["ks"]:
            with self._s3_env() as store:
                s3crash.build_pre(store, sc, prior)
                pre: Dict[str, Any] = {}
                post: Dict[str, Any] = {}
                if sc != "create":
                    po = s3crash.observe(store)
                    blobs = reader.Blobs.s3(store, "bkt", s3crash.TABLE)
                    tv = reader.read_table(blobs)
                    cur = tv.current()
                    pre = {"rows": po["rows"], "nsnap": po["nsnap"], "uuid": po["uuid"], "pointer": po["pointer"],
                           "reach": set(po["reach"]),
                           "first_file_rows": reader.canon_rows(reader.read_rows(blobs, cur.files[0])) if cur and cur.files else [],
                           "rows_before_last": []}
                    if cur is not None and len(tv.snapshots) >= 2:
                        pre["rows_before_last"] = sorted(tv.snapshots, key=lambda s_: s_.seq)[-2].rows
                    post = expected_post(sc, pre)
                r = s3crash.run_until(store, s3crash.operation(sc), k)
                res.evals += 1
                res.count("crash_points")
                res.count("s3_crash_points")
                crashed = r["parked"]
                if not crashed and (r["error"] or k < case["n"]):
                    if r["error"]:
                        res.inconclusive.append(f"S3 {sc}/{prior}/k={k}: operation raised {r['error']}")
                        continue
                    res.count("crash_index_beyond_run")
                wit = {"backend": "s3", "scenario": sc, "prior": prior, "k": k, "variant": "s3",
                       "crash": [f"parked before request #{k}; last requests: {r['requests'][-3:]}"]}
                sig = f"{sc}:s3"
                listing0 = set(s3crash.listing(store))
                store.clock.advance(s3crash.LEASE + 5.0)      # the dead holder's lock lapses

                def gc_now(tag: str, state_rows: Any) -> bool:
                    obs_ = s3crash.observe(store)
                    reach = set(obs_["reach"]) if not obs_.get("absent") else set()
                    s3crash.age_all(store, 200000)
                    before = set(s3crash.listing(store))
                    try:
                        t2 = ds.load_table(s3crash.TABLE)
                        GarbageCollector(t2.table_path, t2.metadata_manager, t2.file_manager).collect(0, 0)
                        res.count("gc_after_crash")
                    except Exception as e:  # noqa
                        res.violation(f"gc-fails-after-crash:{sig}{tag}", f"{type(e).__name__}: {str(e)[:200]}", wit)
                        return False
                    gone = before - set(s3crash.listing(store))
                    res.count("leftovers_removed_by_gc", len([p_ for p_ in gone if not p_.startswith(".locks/")]))
                    if gone & reach:
                        res.violation(f"gc-deleted-reachable-after-crash:{sig}{tag}", f"{sorted(gone & reach)[:3]}", wit)
                        return False
                    o3 = s3crash.observe(store)
                    if o3.get("absent") or o3.get("errors") or o3.get("rows") != state_rows:
                        res.violation(f"gc-damaged-table-after-crash:{sig}{tag}", f"{o3.get('errors') or o3.get('error')}", wit)
                        return False
                    return True

                if sc == "create":
                    try:
                        t = ds.create_table(s3crash.TABLE, schema=tables.std_schema())
                        if t.scan() != [] or t.row_count() != 0:
                            res.violation(f"create-crash-not-empty:{sig}", "table not empty after interrupted creation", wit)
                            continue
                        t.append_records(tables.rows([1]))
                        res.count("followup_appends")
                        if tables.ids_of(ds.load_table(s3crash.TABLE).scan()) != [1]:
                            res.violation(f"create-crash-append-wrong:{sig}", "append after interrupted creation not readable", wit)
                            continue
                    except Exception as e:  # noqa
                        res.violation(f"create-crash-unusable:{sig}", f"table unusable after interrupted creation: {type(e).__name__}: {str(e)[:200]}", wit)
                        continue
                    if not gc_now("", reader.canon_rows(tables.rows([1]))):
                        continue
                    res.count("pre_state_seen")
                    res.key(["s3", sc, k])
                    continue
                obs = s3crash.observe(store)
                wit["observed"] = {kk: obs.get(kk) for kk in ("pointer", "nsnap", "errors")}
                if obs.get("absent") or obs.get("errors"):
                    res.violation(f"unreadable-after-crash:{sig}", f"independent reader: {obs.get('error') or obs.get('errors')}", wit)
                    continue
                moved = obs["pointer"] != pre["pointer"]
                is_pre = obs["rows"] == pre["rows"] and obs["nsnap"] == pre["nsnap"]
                is_post = obs["rows"] == post["rows"] and obs["nsnap"] == post["nsnap"]
                if obs["uuid"] != pre["uuid"]:
                    res.violation(f"identity-changed:{sig}", "table uuid changed", wit)
                    continue
                if moved and not is_post:
                    res.violation(f"neither-pre-nor-post:{sig}", f"pointer moved but state is not the post-state: rows {len(obs['rows'])}, snapshots {obs['nsnap']}", wit)
                    continue
                if not moved and not is_pre:
                    res.violation(f"state-changed-without-pointer-flip:{sig}", f"pointer unchanged but rows {len(obs['rows'])} / snapshots {obs['nsnap']} differ from the pre-state", wit)
                    continue
                res.count("post_state_seen" if moved else "pre_state_seen")
                state_rows = obs["rows"]
                try:
                    t = ds.load_table(s3crash.TABLE)
                    lib = reader.canon_rows(t.scan())
                    nrows = t.row_count()
                    snaps = t.snapshots()
                except Exception as e:  # noqa
                    res.violation(f"library-read-fails-after-crash:{sig}", f"{type(e).__name__}: {str(e)[:200]}", wit)
                    continue
                if lib != state_rows or nrows != len(state_rows) or len(snaps) != obs["nsnap"]:
                    res.violation(f"library-disagrees-after-crash:{sig}", f"library sees {len(lib)} rows / {len(snaps)} snapshots", wit)
                    continue
                if not gc_now(":gc-first", state_rows):
                    continue
                try:
                    t = ds.load_table(s3crash.TABLE)
                    t.append_records(tables.rows([7777]))
                    res.count("followup_appends")
                    after = reader.canon_rows(ds.load_table(s3crash.TABLE).scan())
                except Exception as e:  # noqa
                    res.violation(f"append-fails-after-crash:{sig}", f"{type(e).__name__}: {str(e)[:200]}", wit)
                    continue
                if after != sorted(state_rows + reader.canon_rows(tables.rows([7777]))):
                    res.violation(f"append-wrong-after-crash:{sig}", f"{len(after)} rows after follow-up append, expected {len(state_rows) + 1}", wit)
                    continue
                if not gc_now("", after):
                    continue
                leftovers = [p_ for p_ in listing0 if p_ not in pre["reach"] and not p_.startswith(".locks/")
                             and p_ != reader.HINT and not p_.startswith("metadata/v")]
                if crashed and leftovers:
                    res.key(["s3", sc, prior, k])
                    res.count("crashes_with_leftovers")

    def run_case(self, case: Any, res: CaseResult, tier: str) -> None:
        import datashard as ds

        if case.get("backend") == "s3":
            return self._s3(case, res)
        sc, prior = case["scenario"], case["prior"]
        with Scratch("c03") as d:
            tmpl = str(d / "tmpl" / "t")
            build_pre(tmpl, sc, prior)
            pre_obs = observe(tmpl) if sc != "create" else {"absent": True}
            pre: Dict[str, Any] = {}
            if sc != "create":
                tv = reader.read_table(reader.Blobs.local(tmpl))
                cur = tv.current()
                pre = {"rows": pre_obs["rows"], "nsnap": pre_obs["nsnap"], "uuid": pre_obs["uuid"],
                       "pointer": pre_obs["pointer"], "reach": set(pre_obs["reach"]),
                       "first_file_rows": reader.canon_rows(reader.read_rows(reader.Blobs.local(tmpl), cur.files[0])) if cur and cur.files else [],
                       "rows_before_last": []}
                if cur is not None and len(tv.snapshots) >= 2:
                    prev = sorted(tv.snapshots, key=lambda s: s.seq)[-2]
                    pre["rows_before_last"] = prev.rows
                post = expected_post(sc, pre)
            for k in case["ks"]:
                root = str(d / f"run{k}" / "t")
                if os.path.exists(tmpl):
                    shutil.copytree(os.path.dirname(tmpl), os.path.dirname(root), symlinks=True)
                else:
                    os.makedirs(os.path.dirname(root), exist_ok=True)
                rc, out = child(root, sc, k, case["variant"])
                res.evals += 1
                res.count("crash_points")
                crashed = rc == 137
                if not crashed and not (k == case["n"] and rc == 0):
                    if rc == 0 and "DONE" in out:
                        res.count("crash_index_beyond_run")   # run had fewer calls this time (non-deterministic names)
                    else:
                        res.inconclusive.append(f"child {sc}/{prior}/k={k} exited {rc}: {out[-300:]}")
                        continue
                wit = {"scenario": sc, "prior": prior, "k": k, "variant": case["variant"],
                       "crash": [l for l in out.splitlines() if l.startswith("CRASH")][:1]}
                self._judge(ds, root, sc, pre, post if sc != "create" else {}, wit, res, crashed)
                shutil.rmtree(os.path.dirname(root), ignore_errors=True)

    def _gc_only_leftovers(self, ds: Any, root: str, sig: str, wit: Dict[str, Any], res: CaseResult,
                           state_rows: List[str]) -> bool:
        from datashard.garbage_collector import GarbageCollector

        obs = observe(root)
        reach = set(obs["reach"])
        tables.age_tree(root, 200000)
        before = set(reader.Blobs.local(root).listing())
        try:
            t2 = ds.load_table(root)
            GarbageCollector(t2.table_path, t2.metadata_manager, t2.file_manager).collect(0, 0)
            res.count("gc_after_crash")
        except Exception as e:  # noqa
            res.violation(f"gc-fails-after-crash:{sig}", f"{type(e).__name__}: {str(e)[:200]}", wit)
            return False
        gone = before - set(reader.Blobs.local(root).listing())
        res.count("leftovers_removed_by_gc", len([p for p in gone if not p.startswith(".locks/")]))
        if gone & reach:
            res.violation(f"gc-deleted-reachable-after-crash:{sig}", f"{sorted(gone & reach)[:3]}", wit)
            return False
        obs3 = observe(root)
        if obs3.get("absent") or obs3.get("errors") or obs3.get("rows") != state_rows:
            res.violation(f"gc-damaged-table-after-crash:{sig}", f"{obs3.get('errors') or obs3.get('error')}", wit)
            return False
        try:
            if reader.canon_rows(ds.load_table(root).scan()) != state_rows:
                res.violation(f"gc-damaged-table-after-crash:{sig}", "library scan differs after the collection", wit)
                return False
        except Exception as e:  # noqa
            res.violation(f"gc-damaged-table-after-crash:{sig}", f"scan raises after the collection: {type(e).__name__}: {str(e)[:160]}", wit)
            return False
        return True

    def _judge(self, ds: Any, root: str, sc: str, pre: Dict[str, Any], post: Dict[str, Any], wit: Dict[str, Any],
               res: CaseResult, crashed: bool) -> None:
        sig = f"{sc}:{wit['variant']}"
        listing0 = set(reader.Blobs.local(root).listing()) if os.path.isdir(root) else set()
        if sc == "create":
            # must be creatable / openable as an empty table, then writable
            try:
                t = ds.create_table(root, schema=tables.std_schema())
                if t.scan() != [] or t.row_count() != 0:
                    res.violation(f"create-crash-not-empty:{sig}", "table not empty after interrupted creation", wit)
                    return
                t.append_records(tables.rows([1]))
                res.count("followup_appends")
                if tables.ids_of(ds.load_table(root).scan()) != [1]:
                    res.violation(f"create-crash-append-wrong:{sig}", "append after interrupted creation not readable", wit)
                    return
                t.garbage_collect(0)
                res.count("gc_after_crash")
                if tables.ids_of(ds.load_table(root).scan()) != [1]:
                    res.violation(f"create-crash-gc-damage:{sig}", "collection after interrupted creation damaged the table", wit)
                    return
            except Exception as e:  # noqa
                res.violation(f"create-crash-unusable:{sig}", f"table unusable after interrupted creation: {type(e).__name__}: {str(e)[:200]}", wit)
                return
            res.count("pre_state_seen")
            res.key([sc, wit["k"], wit["variant"]])
            return
        obs = observe(root)
        wit["observed"] = {k: obs.get(k) for k in ("pointer", "nsnap", "errors")}
        if obs.get("absent") or obs.get("errors"):
            res.violation(f"unreadable-after-crash:{sig}", f"independent reader: {obs.get('error') or obs.get('errors')}", wit)
            return
        moved = obs["pointer"] != pre["pointer"]
        is_pre = obs["rows"] == pre["rows"] and obs["nsnap"] == pre["nsnap"]
        is_post = obs["rows"] == post["rows"] and obs["nsnap"] == post["nsnap"]
        if obs["uuid"] != pre["uuid"]:
            res.violation(f"identity-changed:{sig}", "table uuid changed", wit)
            return
        if moved and not is_post:
            res.violation(f"neither-pre-nor-post:{sig}", f"pointer moved but state is not the post-state: rows {len(obs['rows'])}, snapshots {obs['nsnap']}", wit)
            return
        if not moved and not is_pre:
            res.violation(f"state-changed-without-pointer-flip:{sig}", f"pointer unchanged but rows {len(obs['rows'])} / snapshots {obs['nsnap']} differ from the pre-state", wit)
            return
        res.count("post_state_seen" if moved else "pre_state_seen")
        state_rows = obs["rows"]
        # (2) the library agrees and raises nowhere
        try:
            t = ds.load_table(root)
            lib = reader.canon_rows(t.scan())
            rc = t.row_count()
            snaps = t.snapshots()
        except Exception as e:  # noqa
            res.violation(f"library-read-fails-after-crash:{sig}", f"{type(e).__name__}: {str(e)[:200]}", wit)
            return
        if lib != state_rows or rc != len(state_rows) or len(snaps) != obs["nsnap"]:
            res.violation(f"library-disagrees-after-crash:{sig}", f"library sees {len(lib)} rows / {len(snaps)} snapshots", wit)
            return
        # (4a) a collection run straight after the crash - BEFORE any further commit rewrites the pointer -
        # must delete nothing that the surviving state references (an uncommitted v(N+1) metadata file left
        # by the dead operation must not be mistaken for the table's state)
        ok = self._gc_only_leftovers(ds, root, sig + ":gc-first", wit, res, state_rows)
        if not ok:
            return
        # (3) follow-up append
        try:
            t = ds.load_table(root)
            t.append_records(tables.rows([7777]))
            res.count("followup_appends")
            after = reader.canon_rows(ds.load_table(root).scan())
        except Exception as e:  # noqa
            res.violation(f"append-fails-after-crash:{sig}", f"{type(e).__name__}: {str(e)[:200]}", wit)
            return
        if after != sorted(state_rows + reader.canon_rows(tables.rows([7777]))):
            res.violation(f"append-wrong-after-crash:{sig}", f"{len(after)} rows after follow-up append, expected {len(state_rows) + 1}", wit)
            return
        # (4) collection removes only leftovers
        obs2 = observe(root)
        reach = set(obs2["reach"])
        tables.age_tree(root, 200000)
        before = set(reader.Blobs.local(root).listing())
        try:
            from datashard.garbage_collector import GarbageCollector
            t2 = ds.load_table(root)
            GarbageCollector(t2.table_path, t2.metadata_manager, t2.file_manager).collect(0, 0)
            res.count("gc_after_crash")
        except Exception as e:  # noqa
            res.violation(f"gc-fails-after-crash:{sig}", f"{type(e).__name__}: {str(e)[:200]}", wit)
            return
        gone = before - set(reader.Blobs.local(root).listing())
        if gone & reach:
            res.violation(f"gc-deleted-reachable-after-crash:{sig}", f"{sorted(gone & reach)[:3]}", wit)
            return
        obs3 = observe(root)
        if obs3.get("errors") or obs3.get("rows") != after:
            res.violation(f"gc-damaged-table-after-crash:{sig}", f"{obs3.get('errors')}", wit)
            return
        leftovers = [p for p in listing0 if p not in pre["reach"] and not p.startswith(".locks/")
                     and p != reader.HINT and not p.startswith("metadata/v")]
        if crashed and leftovers:
            res.key([sc, wit["prior"], wit["k"], wit["variant"]])
            res.count("crashes_with_leftovers")
        if len(res.samples) < 2 and crashed and leftovers:
            res.sample({"scenario": sc, "prior_snapshots": wit["prior"], "crash_before_call": wit["crash"],
                        "variant": wit["variant"], "state": "post" if moved else "pre",
                        "leftovers": sorted(leftovers)[:5], "removed_by_gc": sorted(gone)[:5]})


if __name__ == "__main__":
    raise SystemExit(C03().main())
