"""C10 - the version pointer is only a hint.

Input-space monitor: pointer contents from a byte grammar x table histories
that leave uncommitted metadata files behind x follow-up operations.  Oracle:
identity, schema, snapshot list and rows after the operation equal the
committed state before the damage (+ the follow-up append); no version that was
never the target of a pointer flip may surface.
"""
from __future__ import annotations

import os
import time
from typing import Any, Dict, List, Optional, Tuple

from vf import history, reader, tables
from vf.common import CaseResult, Check, Scratch, rng_for
from vf.interpose import Interposer

HISTORIES = ["clean", "orphan_next", "orphan_equal_older_first", "orphan_equal_older_last", "orphan_equal_newer", "clean_expired",
             "long", "two_handles", "fresh_v0"]
OPS = ["load", "create", "append", "gc", "append_lose_again", "create_listfail_once", "create_listfail_persistent", "load_listfail_persistent", "create_scandirfail_listfail_persistent"]


def pointer_grammar(cur: str, old: str, orph: Optional[str], n: int, tier: str) -> List[Tuple[str, str, Optional[bytes]]]:
    """(name, class, content) - content None = delete the pointer."""
    g: List[Tuple[str, str, Optional[bytes]]] = [
        ("absent", "absent", None),
        ("empty", "unparseable", b""),
        ("space", "unparseable", b" "),
        ("newline", "unparseable", b"\n"),
        ("crlf_tab", "unparseable", b"\r\n\t"),
        ("legacy_cur_missing", "missing-target", str(n).encode()),
        ("legacy_padded", "missing-target", ("0" + str(n)).encode()),
        ("legacy_huge", "missing-target", b"99999999999"),
        ("legacy_zero", "missing-target", b"0"),
        ("current", "valid", cur.encode()),
        ("current_nl", "valid", cur.encode() + b"\n"),
        ("current_crlf", "valid", cur.encode() + b"\r\n"),
        ("current_padded", "valid", b"  " + cur.encode() + b" \n"),
        ("current_nul", "unparseable", cur.encode() + b"\x00"),
        ("current_garbage", "unparseable", cur.encode() + b"garbage"),
        ("missing_same_version", "missing-target", f"v{n}-00000000.metadata.json".encode()),
        ("missing_higher_version", "missing-target", f"v{n + 5}-deadbeef.metadata.json".encode()),
        ("missing_legacy_name", "missing-target", f"v{n}.metadata.json".encode()),
        ("stale", "stale", old.encode()),
        ("random", "unparseable", bytes(range(7, 40))),
        ("invalid_utf8", "unparseable", b"\xff\xfe\xfd"),
        ("dotdot", "unparseable", b"../../etc/passwd"),
        ("dotdot_wellformed", "unparseable", b"v1-../../x.metadata.json"),
        ("upper", "unparseable", cur.upper().encode()),
        ("megabyte", "unparseable", b"A" * (1 << 20)),
        ("json", "unparseable", b'{"version": 3}'),
        ("unicode_superscript_digit", "unparseable", "\u00b2".encode()),          # str.isdigit() is True, int() fails
        ("unicode_arabic_digit", "unparseable", "\u0663".encode()),              # isdigit() True, int() == 3
        ("fullwidth_digits", "unparseable", "\uff13".encode()),
        ("bom_current", "unparseable", b"\xef\xbb\xbf" + cur.encode()),
        ("digits_5000", "missing-target", b"7" * 5000),        # beyond Python's int-from-string digit limit
        ("version_digits_5000", "missing-target", b"v" + b"7" * 5000 + b"-deadbeef.metadata.json"),
    ]
    prefixes = range(1, len(cur)) if tier == "thorough" else [1, 2, 3, len(cur) // 2, len(cur) - 14, len(cur) - 5, len(cur) - 1]
    for k in prefixes:
        g.append((f"prefix{k}", "unparseable-or-missing", cur[:k].encode()))
    if orph is not None:
        g.append(("uncommitted", "names-uncommitted", orph.encode()))
    return g


def build(hist: str, root: str, ip: Interposer) -> Dict[str, Any]:
    rng = rng_for(0, "c10b")
    h = history.History(root, rng, ip=ip)
    # fresh_v0: a table that was created and never committed to - its only metadata file is v0-*
    for op in ([] if hist == "fresh_v0" else [("append", 2), ("append", 1), ("delete_append", 1)]):
        out = h.apply(op)
        assert out["ok"], out
        h.observe(op, True)
    stale_handle = None
    if hist == "long":
        # more than ten versions: v10, v11, ... must outrank v9 in every comparison
        for _ in range(9):
            out = h.apply(("append", 1))
            assert out["ok"], out
            h.observe(("append",), True)
    if hist == "two_handles":
        # a long-lived handle A that committed earlier, then another handle B commits twice: A's in-memory idea of
        # the table is stale when the pointer is damaged and A is used again
        import datashard as ds
        stale_handle = ds.load_table(root)
        stale_handle.append_records(tables.rows(h.fresh_ids(1)))
        h.observe(("append-by-A",), True)
        for _ in range(2):
            out = h.apply(("append", 1))
            assert out["ok"], out
            h.observe(("append-by-B",), True)
    if hist == "clean_expired":
        out = h.apply(("expire", 1, 0, "plain"))
        assert out["ok"], out
        h.observe(("expire",), True)
    orph = None
    if hist.startswith("orphan"):
        before = {n for _v, n in reader.metadata_versions(h.blobs())}
        out = h.apply(("fail_commit", 1))
        assert not out["ok"], "fault plan did not fail the commit"
        h.observe(("fail_commit",), False)
        new = [n for _v, n in reader.metadata_versions(h.blobs()) if n not in before]
        assert len(new) == 1, new
        orph = new[0]
        if hist.startswith("orphan_equal"):
            out = h.apply(("append", 1))
            assert out["ok"], out
            h.observe(("append",), True)
            if hist.startswith("orphan_equal_older"):
                # the uncommitted file must lose the tie whichever of the two is listed first
                renamed = orph.split("-")[0] + ("-00000001" if hist.endswith("_first") else "-fffffffe") + ".metadata.json"
                os.rename(os.path.join(root, "metadata", orph), os.path.join(root, "metadata", renamed))
                orph = renamed
            now = time.time()
            op = os.path.join(root, "metadata", orph)
            cp = os.path.join(root, "metadata", h.pointers[-1])
            if hist == "orphan_equal_newer":
                os.utime(cp, (now - 50, now - 50))
                os.utime(op, (now - 5, now - 5))
            else:
                os.utime(op, (now - 50, now - 50))
                os.utime(cp, (now - 5, now - 5))
    tv = h.view()
    committed = {"uuid": tv.uuid, "schemas": tv.meta["schemas"], "ids": sorted(s.id for s in tv.snapshots),
                 "current": tv.current_id, "rows": tv.current_rows(),
                 "per_snapshot": {s.id: s.rows for s in tv.snapshots}}
    orph_ids: List[int] = []
    if orph:
        om = reader.read_metadata_file(h.blobs(), orph)
        orph_ids = [s["snapshot_id"] for s in om["snapshots"] if s["snapshot_id"] not in committed["ids"]]
    version = int(h.pointers[-1].split("-")[0].split(".")[0][1:])
    return {"h": h, "stale_handle": stale_handle, "cur": h.pointers[-1], "old": h.pointers[-2] if len(h.pointers) > 1 else h.pointers[-1], "orph": orph, "committed": committed,
            "orph_ids": orph_ids, "version": version, "flipped": list(h.pointers)}


class C10(Check):
    pid = "C10"
    level = "exploration"
    rule = ("5 history shapes (clean; commit failed at the pointer write leaving v(N+1); committed and uncommitted files "
            "of equal version in both mtime orders; clean + expiry) x pointer byte grammar (absent, empty/whitespace, "
            "legacy digits, current name with trailing NL/CRLF/NUL/garbage/padding, proper prefixes, well-formed names "
            "of missing files, stale committed name, uncommitted name, random/invalid-UTF8/'../'/1 MB/JSON) x follow-up "
            "{load+scan, create_table(schema), append, collect} then reopen; non-trivial = pointer content differs from "
            "the committed one; distinct by (history, pointer case, op)")
    assumptions = [
        "committed state = what the independent reader sees through the last pointer target the harness observed",
        "a collection that aborts (raises) on a damaged pointer is acceptable: nothing is lost",
    ]
    require = {"cases_judged": 200, "recovered_by_scan": 50, "appends_after_damage": 20}

    @staticmethod
    def _sig(what: str, ctx: str) -> str:
        """One signature per mechanism: a trusted stale pointer and a pointer naming an uncommitted
        file each have a single root cause whatever symptom shows first."""
        if ctx in ("stale-pointer-trusted", "pointer-names-uncommitted-file"):
            return ctx
        if what == "uncommitted-surfaced" and ctx.startswith("pointer-unusable:"):
            return "recovery-picks-uncommitted:" + ctx.split(":", 1)[1]
        return f"{what}:{ctx}"

    def gen_cases(self, tier: str, seed: int):
        for pn in self.S3_POINTERS:
            for op in ("load", "append", "append_lose_again"):
                yield {"backend": "s3", "pointer": pn, "op": op}
        cur = "v4-0123abcd.metadata.json"
        for hist in HISTORIES:
            names = [g[0] for g in pointer_grammar(cur, cur, "x" if hist.startswith("orphan") else None, 4, tier)]
            for pn in names:
                for op in OPS:
                    yield {"hist": hist, "pointer": pn, "op": op}

    S3_POINTERS = ["absent", "empty", "garbage", "legacy_zero", "missing_lower_version", "missing_same_version",
                   "missing_higher_version", "current_nl"]

    def _s3(self, case: Any, res: CaseResult) -> None:
        """the same property on the conditional-write S3 backend (commit numbering comes from the hint there)"""
        import datashard as ds
        from vf.fakes3 import FakeS3Store, S3Env

        ip = Interposer().install(locks=False)
        try:
            store = FakeS3Store()
            with S3Env(store) as env:
                rng = rng_for(0, "c10s3")
                h = history.History("", rng, backend="s3", store=store, s3env=env, table_path="wh/t10", ip=ip)
                for op in [("append", 2), ("append", 1), ("delete_append", 1)]:
                    out = h.apply(op)
                    assert out["ok"], out
                    h.observe(op, True)
                tv = h.view()
                C = {"uuid": tv.uuid, "ids": sorted(s.id for s in tv.snapshots), "rows": tv.current_rows()}
                cur = h.pointers[-1]
                n = int(cur.split("-")[0][1:])
                key = ("bkt", "wh/t10/" + reader.HINT)
                content = {"absent": None, "empty": b"", "garbage": b"\x00\xffnot a name", "legacy_zero": b"0",
                           "missing_lower_version": f"v{n - 2}-0badcafe.metadata.json".encode(),
                           "missing_same_version": f"v{n}-0badcafe.metadata.json".encode(),
                           "missing_higher_version": f"v{n + 5}-0badcafe.metadata.json".encode(),
                           "current_nl": cur.encode() + b"\n"}[case["pointer"]]
                if content is None:
                    store.objects.pop(key, None)
                else:
                    store.put_object(Bucket="bkt", Key=key[1], Body=content)
                wit = {"backend": "s3", "pointer_case": case["pointer"], "op": case["op"], "committed_pointer": cur}
                res.evals += 1
                res.count("cases_judged")
                res.count("s3_cases")
                exp_rows = list(C["rows"])
                sig = f"s3:{case['pointer']}"
                try:
                    t = ds.load_table("wh/t10")
                    if case["op"] in ("append", "append_lose_again"):
                        before = reader.metadata_versions(h.blobs())
                        t.append_records(tables.rows([9001]))
                        res.count("appends_after_damage")
                        exp_rows = sorted(exp_rows + reader.canon_rows(tables.rows([9001])))
                        newptr = reader.pointer_target(h.blobs())
                        m = reader._META_RE.match(newptr or "")
                        maxv = max(v for v, _n in before)
                        if m and int(m.group(1)) <= maxv and case["pointer"] != "current_nl":
                            res.violation(f"commit-version-not-above-existing:{sig}",
                                          f"append after pointer damage published {newptr} although v{maxv} exists on storage: "
                                          f"a later pointer loss resolves to the older file", wit)
                            return
                        if case["op"] == "append_lose_again":
                            store.objects.pop(key, None)
                    t2 = ds.load_table("wh/t10")
                    md = t2.metadata_manager.refresh()
                    rows = reader.canon_rows(t2.scan())
                except Exception as e:  # noqa
                    res.violation(f"op-raises:{case['op']}:{sig}", f"{type(e).__name__}: {str(e)[:200]}", wit)
                    return
                if md.table_uuid != C["uuid"]:
                    res.violation(f"reinitialised:{sig}", "table uuid changed", wit)
                elif not set(C["ids"]) <= {s.snapshot_id for s in md.snapshots}:
                    res.violation(f"snapshots-lost:{sig}", "committed snapshots missing after recovery", wit)
                elif rows != exp_rows:
                    res.violation(f"rows-changed:{sig}", f"{len(rows)} rows, expected {len(exp_rows)}", wit)
                else:
                    res.count("recovered_by_scan")
                    res.key(["s3", case["pointer"], case["op"]])
        finally:
            ip.uninstall()

    def run_case(self, case: Any, res: CaseResult, tier: str) -> None:
        import datashard as ds

        if case.get("backend") == "s3":
            return self._s3(case, res)
        ip = Interposer().install(locks=False)
        try:
            with Scratch("c10") as d:
                root = str(d / "t")
                b = build(case["hist"], root, ip)
                gram = {g[0]: g for g in pointer_grammar(b["cur"], b["old"], b["orph"], b["version"], tier)}
                if case["pointer"] not in gram:
                    res.count("grammar_case_absent")
                    return
                _n, pclass, content = gram[case["pointer"]]
                ppath = os.path.join(root, reader.HINT)
                if content is None:
                    os.remove(ppath)
                else:
                    with open(ppath, "wb") as f:
                        f.write(content)
                C = b["committed"]
                wit = {"history": case["hist"], "pointer_case": case["pointer"], "pointer_class": pclass,
                       "pointer_bytes": (repr(content[:80]) if content is not None else None), "op": case["op"],
                       "committed_pointer": b["cur"], "uncommitted_file": b["orph"],
                       "committed_snapshots": C["ids"]}
                res.evals += 1
                nontrivial = pclass != "valid"
                # mechanism-keyed signature context (never values): which kind of pointer content met
                # which kind of leftover on disk
                if pclass == "stale":
                    sigctx = "stale-pointer-trusted"
                elif pclass == "names-uncommitted":
                    sigctx = "pointer-names-uncommitted-file"
                elif pclass == "valid":
                    sigctx = "valid-pointer"
                else:
                    sigctx = "pointer-unusable:" + (case["hist"] if b["orph"] else "no-uncommitted-files")
                exp_rows = list(C["rows"])
                exp_ids = list(C["ids"])
                # ---- the follow-up operation ----
                listfail = {"mode": None, "n": 0}
                if "listfail" in case["op"]:
                    listfail["mode"] = "once" if case["op"].endswith("once") else "persistent"

                    def lf_hook(o: Any) -> None:
                        if o.phase == "before" and o.name == "local.list_files" and listfail["mode"]:
                            listfail["n"] += 1
                            if listfail["mode"] == "persistent" or listfail["n"] == 1:
                                raise OSError("injected: listing the metadata directory failed")

                    ip.before.append(lf_hook)
                    real_scandir = os.scandir
                    if "scandirfail" in case["op"]:
                        # the failure happens one level lower: inside the directory walk of metadata/
                        ip.before.remove(lf_hook)
                        mdir = os.path.realpath(os.path.join(root, "metadata"))

                        def scandir(path: Any = ".") -> Any:
                            if os.path.realpath(os.fsdecode(path)) == mdir:
                                listfail["n"] += 1
                                raise PermissionError(13, "Permission denied (injected)", mdir)
                            return real_scandir(path)

                        os.scandir = scandir  # type: ignore
                        ip.before.append(lf_hook)
                        listfail["mode"] = None
                    try:
                        other = tables.schema_of([{"id": 1, "name": "zz", "type": "string", "required": False}], 7)
                        if case["op"].startswith("create"):
                            ds.create_table(root, schema=other)
                        else:
                            ds.load_table(root)
                        res.count("listfail_op_returned")
                    except Exception as e:  # raising is a correct way to fail closed
                        res.count("listfail_op_raised")
                        wit["listfail_error"] = f"{type(e).__name__}: {str(e)[:100]}"
                    finally:
                        os.scandir = real_scandir  # type: ignore
                        ip.before.remove(lf_hook)
                        listfail["mode"] = None
                    if listfail["n"] == 0:
                        res.count("listfail_not_reached")
                try:
                    if "listfail" in case["op"]:
                        t = ds.load_table(root)
                    elif case["op"] == "create":
                        other = tables.schema_of([{"id": 1, "name": "zz", "type": "string", "required": False}], 7)
                        t = ds.create_table(root, schema=other)
                    else:
                        t = ds.load_table(root)
                    if b.get("stale_handle") is not None and case["op"] in ("load", "append", "append_lose_again", "gc"):
                        t = b["stale_handle"]          # the handle that was open all along
                        res.count("ops_through_stale_handle")
                        if case["op"] == "load":
                            t.scan()
                    if case["op"] in ("append", "append_lose_again"):
                        vers_before = reader.metadata_versions(reader.Blobs.local(root))
                        t.append_records(tables.rows([9001]))
                        exp_rows = sorted(exp_rows + reader.canon_rows(tables.rows([9001])))
                        res.count("appends_after_damage")
                        # a commit must never publish a version number below one that already exists on disk:
                        # the next pointer loss would resolve to the older file and drop this commit
                        newptr = reader.pointer_target(reader.Blobs.local(root))
                        m = reader._META_RE.match(newptr or "")
                        maxv = max((v for v, _n in vers_before), default=-1)
                        if m and int(m.group(1)) < maxv and pclass not in ("stale", "names-uncommitted"):
                            res.count("cases_judged")
                            res.violation(f"commit-version-went-backwards:{sigctx}",
                                          f"append after pointer damage published {newptr} although v{maxv} exists on disk", wit)
                            return
                        if case["op"] == "append_lose_again":
                            os.remove(ppath)       # the pointer is lost a second time
                    elif case["op"] == "gc":
                        tables.age_tree(root, 7200, only=["data", "metadata/manifests"])
                        try:
                            t.garbage_collect(grace_period_ms=0)
                        except Exception as e:  # aborting is fine
                            res.count("gc_aborted")
                            wit["gc_error"] = f"{type(e).__name__}: {str(e)[:100]}"
                except Exception as e:  # noqa
                    res.count("cases_judged")
                    res.violation(f"op-raises:{case['op']}:{sigctx}",
                                  f"{case['op']} after pointer damage '{case['pointer']}' raised {type(e).__name__}: {str(e)[:160]}", wit)
                    return
                # ---- reopen and compare with the committed state ----
                try:
                    t2 = ds.load_table(root)
                    md = t2.metadata_manager.refresh()
                    lib_ids = sorted(s.snapshot_id for s in md.snapshots)
                    lib_uuid = md.table_uuid
                    lib_schema = [(s.schema_id, s.fields) for s in md.schemas]
                    lib_cur = md.current_snapshot_id if md.current_snapshot_id not in (None, -1) else None
                except Exception as e:  # noqa
                    res.count("cases_judged")
                    res.violation(f"reopen-raises:{sigctx}", f"reopen raised {type(e).__name__}: {str(e)[:160]}", wit)
                    return
                res.count("cases_judged")
                wit["library_snapshots"] = lib_ids
                surfaced = [i for i in lib_ids if i in b["orph_ids"]]
                if lib_uuid != C["uuid"]:
                    res.violation(f"reinitialised:{sigctx}", "table uuid changed: the table was re-initialised", wit)
                    return
                if surfaced:
                    res.violation(self._sig("uncommitted-surfaced", sigctx),
                                  f"a snapshot that was never committed ({surfaced}) is now part of the table", wit)
                    return
                if case["op"] not in ("append", "append_lose_again"):
                    if lib_ids != exp_ids or lib_cur != C["current"]:
                        older = set(lib_ids) < set(exp_ids)
                        res.violation(self._sig('older-version-served' if older else 'snapshot-list-changed', sigctx),
                                      f"snapshot list {lib_ids} (current {lib_cur}) != committed {exp_ids} (current {C['current']})", wit)
                        return
                else:
                    if not set(exp_ids) <= set(lib_ids) or len(lib_ids) != len(exp_ids) + 1:
                        older = not set(exp_ids) <= set(lib_ids)
                        res.violation(self._sig('append-on-older-version' if older else 'snapshot-list-changed', sigctx),
                                      f"after append snapshot list {lib_ids} vs committed {exp_ids}", wit)
                        return
                # the metadata log must name files that exist (the chain of superseded versions is what audits follow)
                if case["op"] in ("append", "append_lose_again") and pclass not in ("stale", "names-uncommitted"):
                    have = set(reader.Blobs.local(root).listing())
                    missing_log = [e.get("metadata-file") for e in (md.metadata_log or [])
                                   if str(e.get("metadata-file", "")).lstrip("/") not in have]
                    if missing_log:
                        res.violation(f"metadata-log-names-missing-file:{sigctx}",
                                      f"after the append the metadata log lists {missing_log[:2]}, which do not exist", wit)
                        return
                want_schema = [(s["schema_id"], s["fields"]) for s in C["schemas"]]
                if lib_schema != want_schema:
                    res.violation(f"schema-changed:{sigctx}", "persisted schema changed", wit)
                    return
                try:
                    rows = reader.canon_rows(t2.scan())
                except Exception as e:  # noqa
                    res.violation(f"scan-raises:{sigctx}", f"scan after recovery raised {type(e).__name__}: {str(e)[:160]}", wit)
                    return
                if rows != exp_rows:
                    res.violation(f"rows-changed:{sigctx}", f"{len(rows)} rows, committed state has {len(exp_rows)}", wit)
                    return
                # every retained snapshot still readable (independent reader through the new pointer)
                tv = reader.read_table(reader.Blobs.local(root))
                for s in tv.snapshots:
                    if s.id in C["per_snapshot"] and s.rows != C["per_snapshot"][s.id]:
                        res.violation(f"retained-snapshot-changed:{sigctx}", f"snapshot {s.id} content changed or unreadable: {s.error}", wit)
                        return
                # the version finally current must descend from a committed one
                if tv.pointer not in b["flipped"] and case["op"] not in ("append", "append_lose_again") and tv.pointer != b["cur"]:
                    if b["orph"] is not None and tv.pointer == b["orph"]:
                        res.violation(f"uncommitted-surfaced:{sigctx}", "pointer now names the uncommitted file", wit)
                        return
                if pclass in ("absent", "unparseable", "missing-target", "unparseable-or-missing"):
                    res.count("recovered_by_scan")
                if nontrivial:
                    res.key([case["hist"], case["pointer"], case["op"]])
                if nontrivial and len(res.samples) < 2:
                    res.sample({"history": case["hist"], "pointer_content": wit["pointer_bytes"], "op": case["op"],
                                "resolved_snapshots": len(lib_ids), "rows": len(rows)})
        finally:
            ip.uninstall()


if __name__ == "__main__":
    raise SystemExit(C10().main())
