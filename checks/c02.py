"""C02 - readers observe only whole committed snapshots.

Readers and writers run under the cooperative scheduler (gates at every storage
operation, plus os.write / os.replace inside the writer's atomic-publish sequence).
Ground truth: immediately after every pointer flip (all actors parked) the
independent reader records the rows of the new current version.  Oracle per read:
the result equals the rows of some version that was current at an instant between
the read's start and end; per handle the matched versions never go backwards.
"""
from __future__ import annotations

import itertools
import os
from typing import Any, Dict, List, Optional, Sequence, Tuple

from vf import reader, tables
from vf.common import CaseResult, Check, Scratch, rng_for
from vf.interpose import GlobalPatch, Interposer, ModuleProxy
from vf.scenario import s3_weather, HINT, ClientLog, FlipLog, Template
from vf.sched import PCT, RandomWalk, Scheduler, SchedEnv, Scripted, adopt, explore_bounded

READ_APIS = ["scan", "scan_parallel", "scan_batches", "iter_records", "row_count", "scan_filter", "scan_noverify"]
WRITERS = ["append", "multi", "delete", "rollback", "failed_commit", "delete_append"]


def build_seed(path: str) -> None:
    import datashard as ds

    t = ds.create_table(path, schema=tables.std_schema())
    with t.new_transaction() as tx:          # ONE manifest naming two data files: a delete of one of them is a
        tx.append_data(tables.rows([1]))     # partial delete that rewrites a manifest the readers' snapshot uses
        tx.append_data(tables.rows([2]))
        tx.commit()
    t.append_records(tables.rows([3, 4]))


def build_empty(path: str) -> None:
    import datashard as ds

    ds.create_table(path, schema=tables.std_schema())


def do_read(t: Any, api: str) -> Any:
    if api == "scan":
        return reader.canon_rows(t.scan())
    if api == "scan_noverify":
        return reader.canon_rows(t.scan(verify_checksums=False))
    if api == "scan_parallel":
        return reader.canon_rows(t.scan(parallel=2))
    if api == "scan_filter":
        return reader.canon_rows(t.scan(filter={"id": (">", 0)}, columns=["id", "v"]))
    if api == "scan_batches":
        out = []
        for b in t.scan_batches(batch_size=1):
            out.extend(b)
        return reader.canon_rows(out)
    if api == "iter_records":
        return reader.canon_rows(list(t.iter_records()))
    if api == "row_count":
        return t.row_count()
    raise ValueError(api)


class Exec:
    def __init__(self, case: Dict[str, Any], tmpl: Template, ip: Interposer):
        self.case = case
        self.tmpl = tmpl
        self.ip = ip

    def run(self, strategy: Any, seed: int = 0) -> Dict[str, Any]:
        import datashard as ds
        import datashard.storage_backend as sb

        case = self.case
        inst = self.tmpl.clone()
        with inst, GlobalPatch() as gp:
            blobs = inst.blobs()
            tv0 = reader.read_table(blobs)
            seed_files = tv0.current().files if tv0.current() is not None else ["data/none.parquet"]
            sched = Scheduler(strategy, seed=seed, max_steps=3000)
            flips = FlipLog(sched)
            clog = ClientLog(sched)
            versions: List[Tuple[int, List[str]]] = [(0, tv0.current_rows())]
            seen = {"n": 0}
            gt_err: List[str] = []

            def monitor(s: Any, actor: Any) -> None:
                while seen["n"] < len(flips.flips):
                    step, _who, target = flips.flips[seen["n"]]
                    seen["n"] += 1
                    tv = reader.read_table(blobs, metadata_name=target)
                    try:
                        versions.append((step, tv.current_rows()))
                    except Exception as e:  # noqa
                        gt_err.append(f"version published at step {step} unreadable: {e}")
                        versions.append((step, ["<unreadable>"]))

            sched.monitors.append(monitor)

            # L2-os gates inside the writer's publish sequence
            def gated(name: str, fn: Any) -> Any:
                def w(*a: Any, **k: Any) -> Any:
                    me = sched.me()
                    if me is not None and me.name.startswith("W"):
                        sched.gate(f"os.{name}")
                    return fn(*a, **k)
                return w

            gp.set(sb, "os", ModuleProxy(os, {"replace": gated("replace", os.replace), "write": gated("write", os.write)}))

            shared = ds.load_table(inst.table_path) if case["topology"] == "shared" else None
            rw0 = ds.load_table(inst.table_path) if case["topology"] == "reader_shares_w0" else None
            handles = []
            fault_actor = {"names": set()}

            def fault_hook(op: Any) -> None:
                if op.phase == "before" and op.name == "local.write_file" and op.path == HINT:
                    me = sched.me()
                    if me is not None and me.name in fault_actor["names"]:
                        raise OSError("injected: pointer write failed")

            self.ip.before.append(fault_hook)
            rfault = {"left": 1 if case.get("reader_fault") else 0}

            def reader_fault_hook(op: Any) -> None:
                # one transient I/O error on a READER's read of the version pointer (not a missing file: EIO)
                if rfault["left"] and op.phase == "before" and op.path == HINT and \
                        op.name in ("local.read_file", "local.exists", "local.open_file"):
                    me = sched.me()
                    if me is not None and me.name.startswith("R"):
                        if case["reader_fault"] == "exists" and op.name != "local.exists":
                            return
                        if case["reader_fault"] == "read" and op.name == "local.exists":
                            return
                        rfault["left"] -= 1
                        sched.count("reader_faults")
                        import errno as _errno
                        raise OSError(_errno.EIO, "injected: transient I/O error reading the version pointer")

            self.ip.before.append(reader_fault_hook)
            for i, api in enumerate(case["readers"]):
                t = shared if shared is not None else (rw0 if rw0 is not None else ds.load_table(inst.table_path))
                handles.append(t)
                name = f"R{i}"

                def rfn(t: Any = t, api: str = api, name: str = name) -> None:
                    for j in range(case.get("nreads", 2)):
                        ev = clog.call(name, api, handle=name)
                        try:
                            r = do_read(t, api)
                        except Exception as e:  # noqa
                            clog.done(ev, "raised", error=f"{type(e).__name__}: {str(e)[:160]}")
                            continue
                        clog.done(ev, "ok", rows=r)

                sched.spawn(name, rfn)
            for i, kind in enumerate(case["writers"]):
                t = shared if shared is not None else (rw0 if (rw0 is not None and i == 0) else ds.load_table(inst.table_path))
                handles.append(t)
                name = f"W{i}"
                if kind == "failed_commit":
                    fault_actor["names"].add(name)
                base = 1000 * (i + 1)
                info = {"append": {"ids": [base + 1, base + 2]}, "multi": {"ids": [base + 1, base + 2, base + 3]},
                        "delete": {"victim": seed_files[i % len(seed_files)]},
                        "delete_append": {"victim": seed_files[i % len(seed_files)], "ids": [base + 7]}}.get(kind, {})
                sched.spawn(name, clog.wrap(name, kind, self._wfn(kind, i, t, seed_files), **info))
            adopt(sched, *{id(h): h for h in handles}.values())
            self.ip.after.append(flips.l1_after)
            if inst.store is not None:
                inst.store.after.append(flips.s3_after)
                s3_weather(case.get("weather"), inst.store, sched, actor="W0")
                inst.store.keep_log = False
            try:
                with SchedEnv(sched, self.ip, inst.store):
                    outcome = sched.run()
            finally:
                self.ip.after.remove(flips.l1_after)
                self.ip.before.remove(fault_hook)
                self.ip.before.remove(reader_fault_hook)
            monitor(sched, None)
            viol = list(self._judge(clog.events, versions, sched.nstep)) if outcome == "ok" else []
            if outcome == "ok":
                viol += list(self._atomic(clog.events, versions, flips.flips, blobs))
            viol += [("published-version-unreadable", m) for m in gt_err]
            return {"outcome": outcome, "viol": viol, "trace_key": sched.trace_key(), "steps": sched.nstep,
                    "events": [{k: (v if k != "rows" else (v if isinstance(v, int) else len(v))) for k, v in e.items()}
                               for e in clog.events],
                    "versions": [(s, len(r)) for s, r in versions], "trace": sched.trace_names(),
                    "nflips": len(flips.flips),
                    "sched_counters": dict(sched.counters),
                    "overlap": sum(1 for e in clog.events if e["actor"].startswith("R")
                                   and any(e["call"] < s <= (e["ret"] or 10**9) for s, _r in versions[1:]))}

    def _wfn(self, kind: str, i: int, t: Any, seed_files: List[str]) -> Any:
        base = 1000 * (i + 1)
        if kind == "append":
            return lambda: t.append_records(tables.rows([base + 1, base + 2]))
        if kind == "multi":
            def multi() -> Any:
                with t.new_transaction() as tx:
                    tx.append_data(tables.rows([base + 1]))
                    tx.append_data(tables.rows([base + 2, base + 3]))
                    return tx.commit()
            return multi
        if kind == "delete":
            def delete() -> Any:
                with t.new_transaction() as tx:
                    tx.delete_files(["/" + seed_files[i % len(seed_files)]])
                    return tx.commit()
            return delete
        if kind == "delete_append":
            def da() -> Any:
                with t.new_transaction() as tx:
                    tx.delete_files(["/" + seed_files[i % len(seed_files)]])
                    tx.append_data(tables.rows([base + 7]))
                    return tx.commit()
            return da
        if kind == "rollback":
            def rb() -> Any:
                tx = t.new_transaction().begin()
                tx.append_data(tables.rows([base + 5]))
                tx.append_data(tables.rows([base + 6]))
                return tx.rollback()
            return rb
        if kind == "failed_commit":
            return lambda: t.append_records(tables.rows([base + 8, base + 9]))
        raise ValueError(kind)

    @staticmethod
    def _atomic(events: List[Dict[str, Any]], versions: List[Tuple[int, List[str]]], flips: Any, blobs: Any):
        """a multi-operation transaction becomes visible all at once: every published version must
        equal the previous one plus the COMPLETE effect of the transaction that published it, and a
        transaction publishes at most once."""
        per_actor: Dict[str, int] = {}
        file_rows: Dict[str, List[str]] = {}
        for k, (step, who, _target) in enumerate(flips):
            ev = next((e for e in events if e["actor"] == who), None)
            if ev is None:
                continue
            per_actor[who] = per_actor.get(who, 0) + 1
            prev_rows, new_rows = versions[k][1], versions[k + 1][1]
            exp = list(prev_rows)
            if ev["op"] in ("rollback", "failed_commit"):
                yield (f"uncommitted-transaction-published:{ev['op']}", f"{who} ({ev['op']}) moved the pointer at step {step}")
                continue
            if "victim" in ev:
                v = ev["victim"]
                if v not in file_rows:
                    try:
                        file_rows[v] = reader.canon_rows(reader.read_rows(blobs, v))
                    except Exception:
                        file_rows[v] = []
                for r in file_rows[v]:
                    if r in exp:
                        exp.remove(r)
            exp += reader.canon_rows(tables.rows(ev.get("ids", [])))
            if sorted(exp) != new_rows:
                yield (f"partial-transaction-published:{ev['op']}",
                       f"version published by {who} ({ev['op']}) at step {step} is not the previous version plus the whole "
                       f"transaction: {len(new_rows)} rows, expected {len(exp)}")
        for who, n in per_actor.items():
            if n > 1:
                ev = next(e for e in events if e["actor"] == who)
                yield (f"transaction-published-in-steps:{ev['op']}", f"{who} ({ev['op']}) moved the pointer {n} times")

    @staticmethod
    def _judge(events: List[Dict[str, Any]], versions: List[Tuple[int, List[str]]], end: int):
        last_k: Dict[str, int] = {}
        for e in events:
            if not e["actor"].startswith("R"):
                continue
            if e["outcome"] == "raised" and "injected: transient I/O error" in str(e.get("error")):
                continue        # the read that met the injected pointer fault may fail; it must not invent a version
            if e["outcome"] == "raised":
                yield (f"read-raised:{e['op']}", f"{e['actor']} {e['op']} raised while only writers were active: {e.get('error')}")
                continue
            if e["outcome"] != "ok":
                yield ("read-never-returned", f"{e['actor']} {e['op']} did not return")
                continue
            start, stop = e["call"], e["ret"]
            got = e["rows"]
            feas = []
            for k, (fs, rows) in enumerate(versions):
                nxt = versions[k + 1][0] if k + 1 < len(versions) else 10**9
                # version k is current on [fs, nxt); the read spans steps (start, stop]
                if fs <= stop and nxt > start:
                    val = len(rows) if isinstance(got, int) else rows
                    if val == got:
                        feas.append(k)
            if not feas:
                yield (f"read-matches-no-version:{e['op']}",
                       f"{e['actor']} {e['op']} over steps ({start},{stop}] returned "
                       f"{got if isinstance(got, int) else len(got)} rows matching no version current in that window "
                       f"(versions: {[(s, len(r)) for s, r in versions]})")
                continue
            prev = last_k.get(e["handle"], 0)
            ok = [k for k in feas if k >= prev]
            if not ok:
                yield (f"read-went-backwards:{e['op']}", f"{e['actor']} {e['op']} matched version(s) {feas} after having seen {prev}")
                continue
            last_k[e["handle"]] = min(ok)


class C02(Check):
    pid = "C02"
    level = "exploration"
    rule = ("1 reader (7 read API variants, 2 successive reads per handle) x 1 writer (append, multi-append txn, delete, "
            "delete+append, explicit rollback, commit failed by an injected pointer-write fault) x {separate, shared} "
            "handles on local storage (+ S3 double): ALL schedules with <=1 context switch (quick) / <=2 (thorough, and "
            "key pairs in quick) at L1-op granularity with extra gates at os.write/os.replace of the writer; 2 readers x "
            "2-3 writers under PCT/random. non-trivial = execution in which a pointer flip fell inside a read's window; "
            "distinct = gate-level trace")
    assumptions = [
        "ground truth per version is read by the independent reader right after each pointer flip, all actors parked",
        "threads of scan(parallel=n) run unscheduled inside their parent's step",
        "pandas APIs not exercised (pandas absent)",
    ]
    require = {"executions_ok": 200, "reads_judged": 400, "reads_overlapping_a_flip": 50}
    worker_timeout_s = {"quick": 1500, "thorough": 7200}

    def gen_cases(self, tier: str, seed: int):
        kmain = 1 if tier == "quick" else 2
        for api in READ_APIS:
            for w in WRITERS:
                cells = [("separate", "local")] if tier == "quick" else [("separate", "local"), ("shared", "local"), ("separate", "s3")]
                for topo, be in cells:
                    if be == "s3" and w == "failed_commit":
                        continue
                    nsh = 1 if kmain == 1 else 8
                    for sh in range(nsh):
                        yield {"mode": "dfs", "readers": [api], "writers": [w], "topology": topo, "backend": be,
                               "k": kmain, "shard": sh, "nshards": nsh, "max_runs": 100000 if tier == "quick" else 200}
        if tier == "quick":
            extra = [("scan", "append", "shared", "local"), ("scan_batches", "delete", "separate", "local"),
                     ("iter_records", "failed_commit", "separate", "local"), ("scan", "multi", "separate", "s3")]
            for api, w, topo, be in extra:
                for sh in range(8):
                    yield {"mode": "dfs", "readers": [api], "writers": [w], "topology": topo, "backend": be, "k": 2,
                           "shard": sh, "nshards": 8, "nreads": 1 if be == "s3" else 2}
        # object store: the response to W0's pointer PUT is lost / its retry answered 412 / the PUT refused - a reader
        # must still see only whole committed snapshots, and no published version may be taken back
        for w in ("lost_response", "applied_412", "503_before"):
            for api in (["scan", "row_count"] if tier == "quick" else READ_APIS):
                for wr in (["append"] if tier == "quick" else ["append", "delete", "multi"]):
                    yield {"mode": "dfs", "readers": [api], "writers": [wr], "topology": "separate", "backend": "s3",
                           "k": 1, "shard": 0, "nshards": 1, "nreads": 2, "weather": w}
        # one transient I/O error on the reader's own access to the pointer while a writer is mid-commit
        for rf in ("read", "exists"):
            for api in (["scan", "row_count"] if tier == "quick" else READ_APIS):
                for wr in (["append", "failed_commit"] if tier == "quick" else ["append", "multi", "delete", "failed_commit"]):
                    yield {"mode": "dfs", "readers": [api], "writers": [wr], "topology": "separate", "backend": "local",
                           "k": 1 if tier == "quick" else 2, "shard": 0, "nshards": 1, "nreads": 2, "reader_fault": rf, "max_runs": 100000 if tier == "quick" else 1500}
        # readers racing the FIRST commit of an empty table
        for api in READ_APIS:
            for w in ("append", "multi"):
                yield {"mode": "dfs", "readers": [api], "writers": [w], "topology": "separate", "backend": "local",
                       "k": 1, "shard": 0, "nshards": 1, "initial": "empty"}
        # a reader on the handle of a writer whose commit fails, while another handle commits
        for api in (["scan", "row_count", "scan_batches"] if tier == "quick" else READ_APIS):
            for w0 in ("failed_commit", "rollback"):
                for sh in range(4):
                    yield {"mode": "dfs", "readers": [api], "writers": [w0, "append"], "topology": "reader_shares_w0",
                           "backend": "local", "k": 1, "shard": sh, "nshards": 4, "nreads": 2}
        nrand = 40 if tier == "quick" else 600
        for i in range(nrand):
            rng = rng_for(seed, "c02r", i)
            yield {"mode": rng.choice(["pct", "random"]),
                   "readers": [rng.choice(READ_APIS) for _ in range(rng.choice([1, 2]))],
                   "writers": [rng.choice(WRITERS[:5] + ["delete_append"]) for _ in range(rng.choice([1, 2, 3]))],
                   "topology": rng.choice(["separate", "shared", "reader_shares_w0"]), "backend": rng.choice(["local", "local", "s3"]),
                   "seed": seed * 100000 + i, "runs": 5 if tier == "quick" else 10,
                   "weather": rng.choice([None, None, "lost_response", "applied_412", "503_before"])}

    def run_case(self, case: Any, res: CaseResult, tier: str) -> None:
        if case["backend"] == "s3":
            case = dict(case, writers=[w if w != "failed_commit" else "append" for w in case["writers"]])
        ip = Interposer().install()
        try:
            with Scratch("c02") as d:
                tmpl = Template(case["backend"], str(d))
                tmpl.build(build_empty if case.get("initial") == "empty" else build_seed)
                ex = Exec(case, tmpl, ip)
                if case.get("_replay_schedule") is not None and case["mode"] == "dfs":
                    dev = [tuple(x) for x in case["_replay_schedule"]]
                    strat = Scripted(dev)
                    self._record(case, dev, ex.run(strat), res)
                elif case["mode"] == "dfs":
                    def run_once(dev: Sequence[Tuple[int, str, int]]) -> Tuple[Scripted, Any]:
                        strat = Scripted(dev)
                        return strat, ex.run(strat)

                    st = explore_bounded(run_once, case["k"], (case["shard"], case["nshards"]),
                                         max_runs=case.get("max_runs", 100000),
                                         on_result=lambda dev, r: self._record(case, dev, r, res))
                    res.count("dfs_infeasible", st["infeasible"])
                    res.count("dfs_truncated", st["truncated"])
                else:
                    for j in range(case["runs"]):
                        s = f"{case['seed']}:{j}"
                        strat = PCT(s, depth=3, est_steps=150) if case["mode"] == "pct" else RandomWalk(s, stay=0.6)
                        self._record(case, [("strategy", case["mode"], s)], ex.run(strat, seed=j), res)
        finally:
            ip.uninstall()

    def _record(self, case: Any, dev: Any, r: Dict[str, Any], res: CaseResult) -> None:
        res.evals += 1
        if r["outcome"] != "ok":
            res.violation(f"no-progress:{r['outcome']}", f"scheduler outcome {r['outcome']} after {r['steps']} steps",
                          {"case": case, "schedule": [list(x) for x in dev], "events": r["events"], "trace_tail": r["trace"][-40:]})
            return
        res.count("executions_ok")
        nreads = sum(1 for e in r["events"] if e["actor"].startswith("R"))
        res.count("reads_judged", nreads)
        for cname in ("reader_faults", "weather_fired"):
            if r.get("sched_counters", {}).get(cname):
                res.count(cname, r["sched_counters"][cname])
        if r["overlap"]:
            res.count("reads_overlapping_a_flip", r["overlap"])
            res.key(r["trace_key"])
        for sig, msg in r["viol"][:3]:
            res.violation(sig, msg, {"case": case, "schedule": [list(x) for x in dev], "events": r["events"],
                                     "versions": r["versions"], "trace": r["trace"]})
        if not r["viol"] and r["overlap"] and len(res.samples) < 2:
            res.sample({"readers": case["readers"], "writers": case["writers"], "topology": case["topology"],
                        "backend": case["backend"], "schedule_deviations": [list(x) for x in dev],
                        "versions(step,rows)": r["versions"], "events": r["events"]})


if __name__ == "__main__":
    raise SystemExit(C02().main())
