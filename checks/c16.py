"""C16 - commits are durable: the pointer never outruns the data it references.

The whole life of a table (create, appends, multi-append, deletes, snapshot deletion,
expiry, collection) runs in a child process under `strace -f -y`; an offline checker
replays the syscall trace in a power-loss model (content is durable only after an
fsync of the file, a directory entry only after an fsync of its directory).  At the
instant of every rename onto the version pointer, every file reachable from the new
pointer value must be flushed and its directory entry persisted.  Additionally the
durable image at fsync/rename-delimited prefixes is materialised and opened with the
real library: if a pointer survived, every retained snapshot must be readable.
"""
from __future__ import annotations

import os
import shutil
import sys
from typing import Any, Dict, List, Optional, Set, Tuple

from vf import reader, strace, tables
from vf.common import VERIF, CaseResult, Check, Scratch

HINT = "metadata.version-hint.text"


class FileObj:
    __slots__ = ("live", "durable", "dirty", "is_dir", "entries", "durable_entries", "ever_synced")

    def __init__(self, is_dir: bool = False):
        self.live = bytearray()
        self.durable: Optional[bytes] = None
        self.dirty = False
        self.is_dir = is_dir
        self.entries: Dict[str, "FileObj"] = {}
        self.durable_entries: Dict[str, "FileObj"] = {}
        self.ever_synced = False


class PowerLossModel:
    def __init__(self, root: str):
        self.root = root
        self.rootobj = FileObj(True)
        self.fdpos: Dict[Tuple[int, int], int] = {}
        self.op = "?"
        self.flips: List[Dict[str, Any]] = []
        self.acked_root_sync = 0

    def _lookup(self, path: str, create_dirs: bool = False) -> Tuple[Optional[FileObj], str, Optional[FileObj]]:
        """returns (parent dir obj, basename, obj or None)"""
        rel = os.path.relpath(path, self.root)
        if rel == ".":
            return None, "", self.rootobj
        parts = rel.split("/")
        d = self.rootobj
        for p in parts[:-1]:
            nxt = d.entries.get(p)
            if nxt is None:
                if not create_dirs:
                    return None, parts[-1], None
                nxt = FileObj(True)
                d.entries[p] = nxt
            d = nxt
        return d, parts[-1], d.entries.get(parts[-1])

    def under(self, p: Optional[str]) -> bool:
        return bool(p) and (p == self.root or p.startswith(self.root + "/"))

    def feed(self, ev: strace.Event) -> Optional[str]:
        """apply one event; returns 'flip' when the pointer was just renamed into place"""
        c = ev.call
        if c == "write" and ev.fdpath and not self.under(ev.fdpath):
            if ev.data and ev.data.startswith(b"MARK "):
                self.op = ev.data[5:].decode(errors="replace").strip()
            return None
        if ev.ret < 0:
            return None
        if c in ("mkdir", "mkdirat"):
            p = ev.paths[0] if ev.paths else None
            if self.under(p):
                par, name, obj = self._lookup(p, True)
                if par is not None and obj is None:
                    par.entries[name] = FileObj(True)
            return None
        if c in ("openat", "open", "creat"):
            p = ev.paths[0] if ev.paths else None
            if not self.under(p):
                return None
            par, name, obj = self._lookup(p, True)
            if par is None:
                return None
            if obj is None and "O_CREAT" in ev.flags:
                obj = FileObj(False)
                par.entries[name] = obj
            if obj is not None and "O_TRUNC" in ev.flags and not obj.is_dir:
                obj.live = bytearray()
                obj.dirty = True
            self.fdpos[(ev.pid, ev.ret)] = len(obj.live) if (obj is not None and "O_APPEND" in ev.flags) else 0
            return None
        if c in ("write", "pwrite64", "writev"):
            if not self.under(ev.fdpath):
                return None
            _par, _name, obj = self._lookup(ev.fdpath)
            if obj is None or obj.is_dir:
                return None
            fdn = int(ev.args.split("<", 1)[0])
            data = ev.data if (ev.data is not None and not ev.truncated) else b"\0" * max(ev.ret, 0)
            if c == "pwrite64":
                try:
                    off = int(ev.args.rsplit(",", 1)[1].strip())
                except Exception:
                    off = len(obj.live)
            else:
                off = self.fdpos.get((ev.pid, fdn), len(obj.live))
            data = data[: ev.ret]
            if len(obj.live) < off:
                obj.live.extend(b"\0" * (off - len(obj.live)))
            obj.live[off:off + len(data)] = data
            self.fdpos[(ev.pid, fdn)] = off + len(data)
            obj.dirty = True
            return None
        if c == "ftruncate" and self.under(ev.fdpath):
            _p, _n, obj = self._lookup(ev.fdpath)
            if obj is not None:
                try:
                    n = int(ev.args.rsplit(",", 1)[1].strip())
                    del obj.live[n:]
                    obj.dirty = True
                except Exception:
                    pass
            return None
        if c in ("fsync", "fdatasync"):
            if not self.under(ev.fdpath):
                return None
            _par, _name, obj = self._lookup(ev.fdpath)
            if obj is None:
                return None
            if obj.is_dir:
                obj.durable_entries = dict(obj.entries)
                if obj is self.rootobj:
                    self.acked_root_sync += 1
            else:
                obj.durable = bytes(obj.live)
                obj.dirty = False
                obj.ever_synced = True
            return "sync"
        if c in ("rename", "renameat", "renameat2"):
            if len(ev.paths) < 2:
                return None
            a, b = ev.paths[0], ev.paths[1]
            if not (self.under(a) and self.under(b)):
                return None
            pa, na, oa = self._lookup(a)
            pb, nb, _ob = self._lookup(b, True)
            if pa is None or pb is None or oa is None:
                return None
            del pa.entries[na]
            pb.entries[nb] = oa
            if b == os.path.join(self.root, HINT):
                return "flip"
            return "rename"
        if c in ("unlink", "unlinkat"):
            p = ev.paths[0] if ev.paths else None
            if self.under(p):
                par, name, obj = self._lookup(p)
                if par is not None and obj is not None:
                    del par.entries[name]
            return "unlink"
        return None

    # ---- queries -------------------------------------------------------------
    def status(self, rel: str) -> Dict[str, Any]:
        """durability status of table-relative path `rel` right now"""
        parts = rel.split("/")
        d = self.rootobj
        out = {"exists": True, "content_flushed": False, "entry_persisted": False, "ancestors_persisted": True}
        for i, p in enumerate(parts):
            obj = d.entries.get(p)
            if obj is None:
                out["exists"] = False
                return out
            last = i == len(parts) - 1
            persisted = d.durable_entries.get(p) is obj
            if last:
                out["entry_persisted"] = persisted
                out["content_flushed"] = (not obj.dirty) and obj.ever_synced
            else:
                # entries living in the pointer's own directory (the root) persist no later than the
                # pointer's entry itself (same directory, ordered journal); deeper ancestors must be synced
                if d is not self.rootobj and not persisted:
                    out["ancestors_persisted"] = False
            d = obj
        return out

    def materialise(self, dest: str) -> bool:
        """write the durable image (persisted entries with flushed content only); returns whether a pointer exists.
        The root's entries are taken as durable only if the root was synced after they appeared."""
        os.makedirs(dest, exist_ok=True)

        def rec(obj: FileObj, path: str) -> None:
            for name, child in obj.durable_entries.items():
                p = os.path.join(path, name)
                if child.is_dir:
                    os.makedirs(p, exist_ok=True)
                    rec(child, p)
                else:
                    with open(p, "wb") as f:
                        f.write(child.durable or b"")

        rec(self.rootobj, dest)
        return os.path.exists(os.path.join(dest, HINT))


class C16(Check):
    pid = "C16"
    level = "fault_enumeration"
    exhaustive = True
    rule = ("one traced process runs create, 2 appends, a multi-append transaction, 2 deletes (manifest rewrite, "
            "delete+append), delete_snapshot, expire_snapshots, an append through a fresh handle, a collection and a "
            "further append (2 variants of that life); strace -f -y records every open/write/pwrite/fsync/rename/unlink/"
            "mkdir incl. pyarrow's own writes. (1) at EVERY rename onto the pointer: each file reachable from the new "
            "pointer value (independent reader) must have flushed content, a persisted directory entry and persisted "
            "ancestors; (2) the durable image after every pointer flip and root-directory fsync (quick) / after every "
            "fsync, rename and unlink (thorough) is materialised and opened by the independent reader and the library. "
            "non-trivial = a pointer flip whose new version references >=1 file written by that operation; distinct by "
            "(operation label, flip index)")
    assumptions = [
        "power-loss model: file content is durable iff fsynced after its last write; a directory entry is durable iff "
        "its directory was fsynced after the entry appeared; entries in the pointer's own directory persist in order",
        "durability of the acknowledged commit itself (root directory fsync after the flip) is measured, not judged",
        "S3 durability is the provider's",
    ]
    require = {"flips_checked": 8, "reachable_files_checked": 40, "images_opened": 10, "trace_events": 200,
               "fsync_faults_fired": 4}

    def gen_cases(self, tier: str, seed: int):
        yield {"variant": "a"}
        yield {"variant": "b"}
        yield {"variant": "bigmeta"}     # metadata files larger than 4 MiB
        # an fsync that fails (nothing flushed) on each kind of file during a commit
        for kind in ("metadata", "manifest", "manifest_list", "data", "hint", "marker",
                     "dir_metadata", "dir_manifests", "dir_data", "dir_inflight"):
            yield {"variant": f"fault:{kind}"}
        # a short write (the kernel takes only part of the buffer) on each kind of metadata-plane file
        for kind in ("metadata", "manifest", "manifest_list", "hint", "marker"):
            yield {"variant": f"shortwrite:{kind}"}
        # two threads on one Table object, one suspended inside a marker write while the other commits
        yield {"variant": "threads"}
        # the publishing rename of each kind of file is refused once (EXDEV)
        for kind in ("metadata", "manifest", "manifest_list", "data", "hint"):
            yield {"variant": f"renamefail:{kind}"}

    def run_case(self, case: Any, res: CaseResult, tier: str) -> None:
        import datashard as ds

        if not strace.available():
            res.inconclusive.append("strace is not usable in this environment")
            return
        with Scratch("c16") as d:
            root = os.path.realpath(str(d)) + "/t"
            log = str(d / "trace.txt")
            p = strace.run([sys.executable, "-m", "vf.procs.durability_ops", root, case["variant"]], log,
                           cwd=str(VERIF), strsize=(12000000 if case["variant"] == "bigmeta" else 2000000), env=dict(os.environ, PYTHONHASHSEED="0"))
            if p.returncode != 0:
                res.inconclusive.append(f"traced child failed: {p.stderr.decode(errors='replace')[-400:]}")
                return
            events = strace.parse(log)
            relevant = [e for e in events if (e.fdpath and e.fdpath.startswith(root)) or any(x.startswith(root) for x in e.paths)
                        or (e.call == "write" and e.data and e.data.startswith(b"MARK "))]
            res.count("trace_events", len(relevant))
            if case["variant"].startswith(("fault:", "shortwrite:", "renamefail:", "threads")):
                marks = [e.data.decode(errors="replace").strip() for e in relevant
                         if e.call == "write" and e.data and e.data.startswith(b"MARK ")]
                if "MARK fault_fired" not in marks:
                    res.inconclusive.append(f"injected fault for {case['variant']} never fired")
                    return
                res.count("fsync_faults_fired")
                res.count("faulted_appends_acked" if any("ACKED" in m for m in marks) else "faulted_appends_raised")
            model = PowerLossModel(root)
            blobs = reader.Blobs.local(root)
            nflip = 0
            image_points: List[int] = []
            for idx, ev in enumerate(relevant):
                kind = model.feed(ev)
                if kind == "flip":
                    nflip += 1
                    self._check_flip(model, blobs, root, nflip, ev, res, case)
                    image_points.append(idx)
                elif kind == "sync" and (tier == "thorough" or ev.fdpath == root):
                    image_points.append(idx)
                elif kind in ("rename", "unlink") and tier == "thorough":
                    image_points.append(idx)
            res.count("root_dir_fsyncs_after_flip", model.acked_root_sync)
            if res.viol:
                return
            # (2) durable images
            model2 = PowerLossModel(root)
            want = set(image_points)
            for idx, ev in enumerate(relevant):
                model2.feed(ev)
                if idx not in want:
                    continue
                img = str(d / f"img{idx}")
                has_ptr = model2.materialise(img)
                res.evals += 1
                if has_ptr:
                    res.count("images_opened")
                    tv = reader.read_table(reader.Blobs.local(img))
                    wit = {"variant": case["variant"], "after_event": ev.raw[:200], "operation": model2.op}
                    if tv.meta is None:
                        res.violation(f"image-pointer-to-unreadable-metadata:{model2.op}",
                                      f"after a power loss at this point the pointer names unreadable metadata: {tv.error}", wit)
                        return
                    bad = [s.error for s in tv.snapshots if s.error]
                    if bad:
                        res.violation(f"image-snapshot-unreadable:{model2.op}",
                                      f"after a power loss at this point a retained snapshot is unreadable: {bad[0]}", wit)
                        return
                    try:
                        t = ds.load_table(img)
                        got = reader.canon_rows(t.scan())
                    except Exception as e:  # noqa
                        res.violation(f"image-library-read-fails:{model2.op}", f"{type(e).__name__}: {str(e)[:200]}", wit)
                        return
                    if got != tv.current_rows():
                        res.violation(f"image-library-disagrees:{model2.op}", "library and independent reader disagree on the durable image", wit)
                        return
                else:
                    res.count("images_without_pointer")
                shutil.rmtree(img, ignore_errors=True)

    def _check_flip(self, model: PowerLossModel, blobs: reader.Blobs, root: str, nflip: int, ev: Any,
                    res: CaseResult, case: Any) -> None:
        ptr = model.rootobj.entries.get(HINT)
        value = bytes(ptr.live).decode("utf-8", "replace").strip() if ptr is not None else ""
        res.evals += 1
        res.count("flips_checked")
        wit: Dict[str, Any] = {"variant": case["variant"], "flip": nflip, "operation": model.op, "pointer_value": value}
        if ptr is None or ptr.dirty or not ptr.ever_synced:
            res.count("pointer_content_not_flushed_before_rename")
        tv = reader.read_table(blobs, metadata_name=value, rows=False)
        if tv.meta is None:
            res.violation(f"flip-to-unreadable:{model.op}", f"pointer flipped to {value!r}: {tv.error}", wit)
            return
        reach = ["metadata/" + value] + tv.reachable()
        bad = []
        for rel in reach:
            st = model.status(rel)
            res.count("reachable_files_checked")
            if not st["exists"]:
                # the file may have been removed later by a collection only if it is no longer reachable *now*;
                # at the flip it must exist in the model
                bad.append((rel, "missing at the flip"))
            elif not st["content_flushed"]:
                bad.append((rel, "content not flushed (no fsync after its last write)"))
            elif not st["entry_persisted"]:
                bad.append((rel, "directory entry not persisted (no fsync of its directory after create/rename)"))
            elif not st["ancestors_persisted"]:
                bad.append((rel, "an ancestor directory entry is not persisted"))
        res.key([model.op, nflip])
        if bad:
            kinds = sorted({("data" if r.startswith("data/") else "metadata-json" if r.endswith(".metadata.json") else
                             "manifest") + ":" + why.split(" (")[0] for r, why in bad})
            wit["not_durable"] = bad[:6]
            res.violation(f"pointer-outruns-data:{kinds[0]}",
                          f"flip #{nflip} ({model.op}) -> {value}: {len(bad)} reachable file(s) not durable, e.g. {bad[0]}", wit)
        elif len(res.samples) < 2:
            res.sample({"operation": model.op, "flip": nflip, "pointer_value": value, "reachable_files_checked": len(reach),
                        "all_flushed_and_persisted": True})


if __name__ == "__main__":
    raise SystemExit(C16().main())
