"""C19 - locks exclude, time out, and never report a lock that is not held.

(a) local FileLock under the cooperative scheduler with gates at the syscalls it
    makes (os.open / fcntl.flock / os.close), virtual monotonic clock and sleep:
    the kernel's flock really arbitrates between separate fds;
(b) real processes hammering one lock file with SIGKILLs of holders;
(c) S3 conditional-write lock over the in-memory double at request granularity
    with virtual-clock lease expiry and scheduler-driven heartbeats.
"""
from __future__ import annotations

import os
import random
import signal
import subprocess
import sys
import time as _time
from typing import Any, Dict, List, Optional, Sequence, Tuple

from vf.common import VERIF, CaseResult, Check, Scratch, rng_for
from vf.fakes3 import client_error, FakeS3Client, FakeS3Store
from vf.interpose import GlobalPatch, ModuleProxy
from vf.sched import PCT, RandomWalk, Scheduler, SchedEnv, Scripted, explore_bounded

LEASE = 60.0


# --------------------------------------------------------------------------
# (a) local lock under the scheduler
# --------------------------------------------------------------------------
def run_local(case: Dict[str, Any], strategy: Any, workdir: str, n: int) -> Dict[str, Any]:
    import fcntl as real_fcntl

    import datashard.file_lock as fl

    path = os.path.join(workdir, f"run{n}", "locks", "x.lock")
    sched = Scheduler(strategy, max_steps=3000)
    viol: List[Tuple[str, str]] = []
    holding: Dict[str, bool] = {}
    events: List[Dict[str, Any]] = []
    timeout = case.get("timeout", 0.05)

    def gated(name: str, fn: Any) -> Any:
        def w(*a: Any, **k: Any) -> Any:
            if sched.me() is not None:
                sched.gate(f"sys.{name}")
            return fn(*a, **k)
        return w

    def holder_never_releases() -> bool:
        return False

    owned: Dict[str, set] = {}

    def tracked_open(*a: Any, **k: Any) -> int:
        fd = os.open(*a, **k)
        me = sched.me()
        if me is not None:
            owned.setdefault(me.name, set()).add(fd)
        return fd

    def tracked_close(fd: int) -> None:
        # descriptor-ownership monitor: a lock object may only close a descriptor it opened and has not closed yet
        # (descriptor numbers are recycled at once, so a stale close hits whatever another handle just opened)
        me = sched.me()
        if me is not None and not sched.aborting:      # (an execution being torn down unwinds through the handlers)
            if fd not in owned.setdefault(me.name, set()):
                other = next((n_ for n_, s_ in owned.items() if fd in s_), None)
                viol.append(("close-of-descriptor-not-owned",
                             f"{me.name} closes descriptor {fd}, which it does not own (double close)" +
                             (f"; the number currently belongs to {other}'s lock descriptor" if other else "")))
            else:
                owned[me.name].discard(fd)
        return os.close(fd)

    with GlobalPatch() as gp, SchedEnv(sched, None, None):
        gp.set(fl, "os", ModuleProxy(os, {"open": gated("open", tracked_open), "close": gated("close", tracked_close),
                                          "unlink": gated("unlink", os.unlink)}))
        ff = {"left": 1 if case.get("flock_fault") else 0}

        def faulty_flock(fd: int, op: int) -> Any:
            # a transient kernel error on ONE contended lock attempt (ENOLCK: lock table full; EOPNOTSUPP/ENOSYS as
            # some network file systems answer under load) - never a reason to treat the lock as acquired
            me = sched.me()
            if ff["left"] and me is not None and me.name == "B" and (op & real_fcntl.LOCK_EX) and any(holding.values()):
                ff["left"] -= 1
                sched.count("flock_faults")
                import errno as _errno
                raise OSError(getattr(_errno, case["flock_fault"]), "injected transient flock failure")
            return real_fcntl.flock(fd, op)

        gp.set(fl, "fcntl", ModuleProxy(real_fcntl, {"flock": gated("flock", faulty_flock)}))

        def contender(name: str, role: str) -> Any:
            lock = fl.FileLock(path, timeout=timeout)

            def fn() -> None:
                t0 = sched.clock.now()
                ev = {"actor": name, "role": role, "t_call": t0}
                events.append(ev)
                try:
                    ok = lock.acquire()
                except TimeoutError:
                    ev["outcome"] = "timeout"
                    ev["elapsed"] = sched.clock.now() - t0
                    return
                ev["outcome"] = "acquired" if ok else "false"
                if not ok:
                    return
                if not lock.is_held():
                    viol.append(("acquired-but-not-held", f"{name}: acquire() returned True but is_held() is False"))
                holding[name] = True
                if role == "hog":
                    # holds until everybody else has given up (drives the timeout path)
                    sched.gate("cs:hog", pred=lambda: all(e.get("outcome") for e in events if e["actor"] != name))
                else:
                    sched.gate("cs:1")
                    sched.gate("cs:2")
                holding[name] = False
                lock.release()
                if lock.is_held():
                    viol.append(("held-after-release", f"{name}: is_held() True after release()"))
                ev["released"] = True
                if case.get("reacquire"):
                    if lock.acquire(blocking=False):
                        holding[name] = True
                        sched.gate("cs:again")
                        holding[name] = False
                        lock.release()
            return fn

        roles = case["roles"]
        for i, role in enumerate(roles):
            nm = "ABC"[i]
            sched.spawn(nm, contender(nm, role))

        def monitor(s: Any, actor: Any) -> None:
            hs = [n for n, h in holding.items() if h]
            if len(hs) > 1:
                viol.append(("two-holders", f"{hs} are both between a returned acquire() and release()"))

        sched.monitors.append(monitor)
        outcome = sched.run()
    for ev in events:
        if ev.get("outcome") == "timeout":
            el = ev["elapsed"]
            if not (timeout - 1e-6 <= el <= timeout + fl.FileLock._POLL_INTERVAL + 0.005):
                viol.append(("timeout-out-of-bounds", f"{ev['actor']} timed out after virtual {el:.4f}s (timeout {timeout})"))
        if ev.get("outcome") is None and outcome == "ok":
            viol.append(("acquire-never-returned", f"{ev['actor']}"))
    if "hog" in case["roles"] and outcome == "ok":
        waiters = [e for e in events if e["role"] != "hog"]
        hog = [e for e in events if e["role"] == "hog"][0]
        if hog.get("outcome") == "acquired":
            for w in waiters:
                if w.get("outcome") == "acquired" and w["t_call"] >= hog["t_call"]:
                    pass  # may have acquired before the hog did; covered by the two-holders monitor
    return {"outcome": outcome, "viol": viol, "events": events, "trace": sched.trace, "trace_key": sched.trace_key(),
            "steps": sched.nstep, "counters": dict(sched.counters),
            "contended": sched.counters.get("virtual_sleeps", 0) > 0}


# --------------------------------------------------------------------------
# (c) S3 lock under the scheduler
# --------------------------------------------------------------------------
def run_s3(case: Dict[str, Any], strategy: Any) -> Dict[str, Any]:
    import datashard.lock_provider as lp

    store = FakeS3Store(etag_mode=case.get("etag_mode", "md5"))
    store.keep_log = False
    client = FakeS3Client(store)
    sched = Scheduler(strategy, clock=store.clock, max_steps=3000)
    viol: List[Tuple[str, str]] = []
    KEY = "t/.locks/metadata.lock"
    provs: Dict[str, Any] = {}
    holding: Dict[str, bool] = {}
    lease_until: Dict[str, float] = {}
    superseded: Dict[str, bool] = {}
    events: List[Dict[str, Any]] = []
    by_id: Dict[str, str] = {}
    timeout = case.get("timeout", 30.0)

    def obj_owner() -> Optional[str]:
        o = store.objects.get(("bkt", KEY))
        return by_id.get(o.body.decode().split(":", 1)[0], "?") if o is not None else None

    root_cause = {"flagged": False}

    faults = {"left": case.get("renew_faults", 0)}

    def before(req: Any) -> None:
        if req.key == KEY and req.op == "DELETE":
            req.kw["_owner_before"] = obj_owner()
        if faults["left"] and req.key == KEY and req.op == "PUT" and "IfMatch" in req.kw:
            # transient outage hitting A's lease renewals (driven by the heartbeat actor): refused, nothing applied
            me = sched.me()
            if me is not None and me.name == "hb" and by_id.get(req.kw["Body"].decode().split(":", 1)[0]) == "A":
                faults["left"] -= 1
                sched.count("renewal_faults")
                raise client_error("ServiceUnavailable", "PUT", 503)

    def after(req: Any) -> None:
        me = sched.me()
        if req.key != KEY:
            return
        if req.op == "DELETE" and req.effect == "deleted":
            owner = req.kw.get("_owner_before")
            deleter = me.name if me is not None else "?"
            if owner is not None and owner != deleter and deleter in provs:
                viol.append(("release-deleted-another-owners-lock",
                             f"{deleter}'s release() deleted the lock object owned by {owner} "
                             f"(read-then-unconditional-delete; {deleter} was paused past its lease in between)"))
                root_cause["flagged"] = True
                sched.count("wrongful_deletes")
        if root_cause["flagged"]:
            return      # consequences of the wrongful delete are not separate findings
        if req.op == "PUT" and req.effect == "written":
            who = by_id.get(req.kw["Body"].decode().split(":", 1)[0], "?")
            now = store.clock.now()
            prev = req.__dict__.get("_prev_owner") if hasattr(req, "__dict__") else None
            for other, h in holding.items():
                if other != who and h and not superseded.get(other):
                    # someone else believed to hold: owner change while the object existed?
                    if lease_until.get(other, 0) > now:
                        viol.append(("takeover-before-lease-lapsed",
                                     f"{who} wrote the lock at t={now:.1f} while {other}'s lease runs until {lease_until[other]:.1f}"))
                    superseded[other] = True
                    sched.count("takeovers")
            lease_until[who] = now + LEASE

    store.after.append(after)

    def contender(name: str) -> Any:
        p = lp.S3LockProvider(client, "bkt", KEY, timeout=timeout, lease_seconds=int(LEASE))
        provs[name] = p
        by_id[p.lock_id] = name

        def fn() -> None:
            t0 = store.clock.now()
            ev: Dict[str, Any] = {"actor": name, "t_call": t0}
            events.append(ev)
            try:
                ok = p.acquire()
            except TimeoutError:
                ev["outcome"] = "timeout"
                ev["elapsed"] = store.clock.now() - t0
                return
            ev["outcome"] = "acquired" if ok else "false"
            if not ok:
                return
            now = store.clock.now()
            if obj_owner() != name:
                viol.append(("acquire-true-but-object-not-ours", f"{name}: acquire() True but lock object is owned by {obj_owner()}"))
            for other, h in holding.items():
                if other != name and h and lease_until.get(other, 0) > now and not superseded.get(other) \
                        and not root_cause["flagged"]:
                    viol.append(("acquired-while-other-lease-live",
                                 f"{name} acquired at t={now:.1f} while {other} holds with a lease until {lease_until[other]:.1f}"))
            holding[name] = True
            superseded[name] = False
            sched.gate("cs:1")
            held = p.is_held()
            ev["is_held"] = held
            if held and superseded.get(name):
                viol.append(("is-held-true-after-takeover", f"{name}: is_held() True although its lock was taken over"))
            if held and obj_owner() != name:
                viol.append(("is-held-true-but-object-not-ours", f"{name}: is_held() True but object owner is {obj_owner()}"))
            sched.gate("cs:2")
            holding[name] = False
            p.release()
            ev["released"] = True
        return fn

    names = "ABC"[: case["n"]]
    for nm in names:
        sched.spawn(nm, contender(nm))

    def clock_actor() -> None:
        for _ in range(case.get("clock_steps", 1)):
            sched.gate("env:clock+lease")
            store.clock.advance(LEASE + 5.0)
            sched.count("lease_expiries")

    def hb_actor() -> None:
        for _ in range(case.get("hb_steps", 0)):
            sched.gate("env:heartbeat")
            for nm, p in provs.items():
                if p.is_locked:
                    sched.count("heartbeats")
                    p._renew_once()

    if case.get("clock_steps", 1):
        sched.spawn("clock", clock_actor, daemonic=True)
    if case.get("hb_steps", 0):
        sched.spawn("hb", hb_actor, daemonic=True)

    from vf.fakes3 import VirtualNow

    with VirtualNow(store.clock), SchedEnv(sched, None, store):
        store.before.append(before)      # after the gate hook: sees the state at effect time
        outcome = sched.run()
    jump = case.get("clock_steps", 1) * (LEASE + 5.0)
    for ev in events:
        if ev.get("outcome") == "timeout":
            # detected at the first retry after the deadline: at most one back-off sleep (<=0.9 s)
            # plus whatever the clock actor jumped in between
            if not (timeout - 1e-6 <= ev["elapsed"] <= timeout + jump + 1.0):
                viol.append(("timeout-out-of-bounds", f"{ev['actor']} timed out after virtual {ev['elapsed']:.1f}s (timeout {timeout})"))
        if ev.get("outcome") is None and outcome == "ok":
            viol.append(("acquire-never-returned", ev["actor"]))
    return {"outcome": outcome, "viol": viol, "events": events, "trace": sched.trace, "trace_key": sched.trace_key(),
            "steps": sched.nstep, "counters": dict(sched.counters),
            "contended": sched.counters.get("virtual_sleeps", 0) > 0 or sched.counters.get("takeovers", 0) > 0}


def run_s3_seq(case: Dict[str, Any]) -> Dict[str, Any]:
    """Sequential histories of the CAS lock (no scheduler): random programs over
    {acquire (one attempt), heartbeat renewal [ok | 503 refused | applied but answered 500], is_held, release,
    clock +small / +lease} for 2-3 providers, judged against a lease model fed by the writes the store applies."""
    import datashard.lock_provider as lp
    from vf.fakes3 import VirtualNow
    from vf.interpose import GlobalPatch, ModuleProxy
    import time as _rt

    rng = random.Random(case["seed"])
    store = FakeS3Store(etag_mode=case.get("etag_mode", rng.choice(["md5", "unique"])))
    store.keep_log = False
    client = FakeS3Client(store)
    KEY = "t/.locks/metadata.lock"
    clock = store.clock
    viol: List[Tuple[str, str]] = []
    by_id: Dict[str, str] = {}
    lease_until: Dict[str, float] = {}
    owner_now: Dict[str, Optional[str]] = {"o": None}
    fault = {"mode": None}
    log: List[str] = []
    counters: Dict[str, int] = {}

    def owner_of_obj() -> Optional[str]:
        o = store.objects.get(("bkt", KEY))
        return by_id.get(o.body.decode().split(":", 1)[0], "?") if o is not None else None

    def before(req: Any) -> None:
        if req.key == KEY and req.op == "PUT" and fault["mode"] == "503":
            fault["mode"] = None
            counters["renewal_faults"] = counters.get("renewal_faults", 0) + 1
            raise client_error("ServiceUnavailable", "PUT", 503)

    def after(req: Any) -> None:
        if req.key != KEY:
            return
        now = clock.now()
        if req.op == "PUT" and req.effect == "written":
            who = by_id.get(req.kw["Body"].decode().split(":", 1)[0], "?")
            prev = owner_now["o"]
            if prev is not None and prev != who:
                counters["takeovers"] = counters.get("takeovers", 0) + 1
                if lease_until.get(prev, 0) > now + 1e-9:
                    viol.append(("seq:takeover-before-lease-lapsed",
                                 f"{who} overwrote the lock at t={now:.1f} although {prev}'s lease (last written "
                                 f"{lease_until[prev] - LEASE:.1f}) runs until {lease_until[prev]:.1f}"))
            owner_now["o"] = who
            lease_until[who] = now + LEASE
            if fault["mode"] == "lost":
                fault["mode"] = None
                counters["renewal_faults"] = counters.get("renewal_faults", 0) + 1
                raise client_error("RequestTimeout", "PUT", 500)
        if req.op == "DELETE" and req.effect == "deleted":
            owner_now["o"] = None

    store.before.append(before)
    store.after.append(after)
    names = "ABC"[: case["n"]]
    provs: Dict[str, Any] = {}
    with GlobalPatch() as gp, VirtualNow(clock):
        proxy = ModuleProxy(_rt, {"sleep": lambda s_: clock.advance(float(s_)), "time": clock.now, "monotonic": clock.now})
        gp.set(lp, "time", proxy)
        gp.set(lp.S3LockProviderBase, "_start_heartbeat", lambda self_: None)
        for nm in names:
            p = lp.S3LockProvider(client, "bkt", KEY, timeout=0.0, lease_seconds=int(LEASE))
            provs[nm] = p
            by_id[p.lock_id] = nm
        for _step in range(case["len"]):
            nm = rng.choice(names)
            p = provs[nm]
            op = rng.choice(["acquire", "acquire", "renew", "renew", "renew503", "renewlost", "is_held", "is_held", "release",
                             "tick", "tick", "lapse"])
            if op == "tick":
                clock.advance(rng.choice([1.0, 10.0, 29.0]))
                log.append("tick")
                continue
            if op == "lapse":
                clock.advance(LEASE + 1.0)
                log.append("lapse")
                continue
            now = clock.now()
            if op == "acquire":
                if p.is_locked:
                    continue
                live = owner_now["o"] is not None and owner_now["o"] != nm and lease_until.get(owner_now["o"], 0) > now + 1e-9
                try:
                    ok = p.acquire()
                except TimeoutError:
                    ok = False
                log.append(f"{nm}.acquire->{ok}")
                counters["acquires"] = counters.get("acquires", 0) + 1
                if ok and live:
                    viol.append(("seq:acquired-while-other-lease-live", f"{nm} acquired at t={now:.1f} while {owner_now['o']}'s lease was live"))
                if ok and owner_of_obj() != nm:
                    viol.append(("seq:acquire-true-but-object-not-ours", f"{nm}: acquire() True, object owner {owner_of_obj()}"))
                if not ok and owner_now["o"] is None:
                    viol.append(("seq:free-lock-not-acquired", f"{nm}: acquire() failed although no lock object exists"))
            elif op.startswith("renew"):
                if not p.is_locked:
                    continue
                fault["mode"] = {"renew": None, "renew503": "503", "renewlost": "lost"}[op]
                try:
                    p._renew_once()
                finally:
                    fault["mode"] = None
                log.append(f"{nm}.{op}")
                counters["heartbeats"] = counters.get("heartbeats", 0) + 1
            elif op == "is_held":
                held = p.is_held()
                log.append(f"{nm}.is_held->{held}")
                if held and owner_of_obj() != nm:
                    viol.append(("seq:is-held-true-but-object-not-ours", f"{nm}: is_held() True but the lock object is owned by {owner_of_obj()}"))
                if held:
                    counters["is_held_true"] = counters.get("is_held_true", 0) + 1
            elif op == "release":
                if not p.is_locked:
                    continue
                before_owner = owner_of_obj()
                p.release()
                log.append(f"{nm}.release")
                if before_owner is not None and before_owner != nm and owner_of_obj() is None:
                    viol.append(("seq:release-deleted-another-owners-lock", f"{nm}.release() deleted {before_owner}'s lock object"))
            if viol:
                break
    return {"viol": viol, "log": log, "counters": counters}


class C19(Check):
    pid = "C19"
    level = "exploration"
    rule = ("(a) 2-3 FileLock objects on one path in one process (separate fds, kernel flock arbitrates), gates at "
            "os.open/fcntl.flock/os.close, virtual monotonic+sleep: ALL schedules with <=2 preemptions (quick) / <=3 "
            "(thorough), roles {plain, hog (never releases until the others gave up -> timeout path), re-acquire}; "
            "(b) 8 OS processes x 150 rounds of acquire -> non-atomic counter increment + O_APPEND enter/exit log -> "
            "release with random SIGKILLs; (b2) fork() scenarios - a used instance inherited by a child that then holds the "
            "lock, a HELD instance inherited by a child that tries to acquire through it / exits normally, the lock file "
            "re-created while free - each claim cross-checked with a raw flock probe; (c) 2-3 S3LockProvider contenders on the S3 double at request granularity + "
            "clock actor (lease expiry) + heartbeat actor: ALL schedules with <=2 preemptions for 2 contenders, "
            "<=2 (budgeted) for 3 contenders, PCT/random beyond, cells with a transient outage refusing the holder's renewals; "
            "(c2) sequential lock histories (one-attempt acquire, renewals ok / refused / applied-but-500, is_held, release, "
            "clock +1..29 s / +lease) against a lease model fed by the writes the store applies. non-trivial = execution with a failed attempt / "
            "takeover / timeout; distinct = gate-level trace")
    assumptions = [
        "the O_EXCL fallback and msvcrt paths cannot execute on this platform and are not claimed",
        "the polling S3 provider is documented best-effort and outside the property",
        "cross-host flock (NFS) is out of reach",
    ]
    require = {"fork_scenarios": 4, "local_executions": 100, "s3_executions": 100, "timeouts_observed": 5, "takeovers": 10,
               "stress_sections": 200}
    worker_timeout_s = {"quick": 1500, "thorough": 7200}

    def gen_cases(self, tier: str, seed: int):
        q = tier == "quick"
        k = 2 if q else 3
        for roles in (["plain", "plain"], ["hog", "plain"], ["plain", "hog"]):
            for sh in range(4):
                yield {"part": "local", "roles": roles, "k": k, "shard": sh, "nshards": 4,
                       "reacquire": roles == ["plain", "plain"], "max_runs": 500 if q else 6000}
        for errname in ("ENOLCK", "EOPNOTSUPP", "EINTR"):
            for sh in range(2):
                yield {"part": "local", "roles": ["plain", "plain"], "k": k, "shard": sh, "nshards": 2, "reacquire": False,
                       "max_runs": 400 if q else 4000, "flock_fault": errname, "timeout": 5.0}
        for roles in (["plain", "plain", "plain"], ["hog", "plain", "plain"]):
            nsh = 8 if q else 32
            for sh in range(nsh):
                yield {"part": "local", "roles": roles, "k": 1 if q else 2, "shard": sh, "nshards": nsh,
                       "reacquire": False, "max_runs": 300 if q else 1500}
        # three contenders, two preemptions (descriptor numbers are recycled between handles of one process)
        if not q:
            for sh in range(64):
                yield {"part": "local", "roles": ["plain", "plain", "plain"], "k": 3, "shard": sh, "nshards": 64,
                       "reacquire": False, "max_runs": 3000}
        for i in range(2 if q else 8):
            yield {"part": "fork", "rep": i}
        for i in range(2 if q else 6):
            yield {"part": "procs", "nproc": 8, "rounds": 150 if q else 400, "seed": seed * 100 + i}
        for cfg in ({"n": 2, "clock_steps": 1, "hb_steps": 0}, {"n": 2, "clock_steps": 1, "hb_steps": 1},
                    {"n": 2, "clock_steps": 2, "hb_steps": 0}, {"n": 2, "clock_steps": 0, "hb_steps": 0, "timeout": 2.0}):
            nsh = 8
            for sh in range(nsh):
                yield dict(cfg, part="s3", k=k, shard=sh, nshards=nsh, max_runs=250 if q else 5000)
        # a transient outage refuses A's first renewals (503, nothing applied) while its lease lapses and B takes over
        for cfg in ({"n": 2, "clock_steps": 1, "hb_steps": 3, "renew_faults": 2}, {"n": 2, "clock_steps": 1, "hb_steps": 2, "renew_faults": 1}):
            nsh = 8
            for sh in range(nsh):
                yield dict(cfg, part="s3", k=k, shard=sh, nshards=nsh, max_runs=250 if q else 5000)
        # the lease arithmetic compares the store's UTC LastModified with the local clock: non-UTC process zones
        for z in ("JST-9", "EST5"):
            for sh in range(4):
                yield {"n": 2, "clock_steps": 1, "hb_steps": 0, "part": "s3", "k": 1, "shard": sh, "nshards": 4,
                       "max_runs": 250 if q else 5000, "tz": z}
        for cfg in ({"n": 3, "clock_steps": 1, "hb_steps": 0},):
            nsh = 16
            for sh in range(nsh):
                yield dict(cfg, part="s3", k=2, shard=sh, nshards=nsh, max_runs=250 if q else 3000)
        for i in range(64 if q else 1500):
            yield {"part": "s3seq", "n": 2 + (i % 2), "len": 14 + (i % 3) * 6, "seed": seed * 1000003 + i, "programs": 40,
                   "tz": [None, "JST-9", "EST5", "CET-1CEST,M3.5.0,M10.5.0/3"][i % 4]}
        nrand = 32 if q else 400
        for i in range(nrand):
            rng = rng_for(seed, "c19r", i)
            yield {"part": "s3rand", "n": rng.choice([2, 3, 3]), "clock_steps": rng.choice([1, 2]), "hb_steps": rng.choice([0, 1, 2, 3]),
                   "renew_faults": rng.choice([0, 0, 1, 2]),
                   "mode": rng.choice(["pct", "random"]), "seed": seed * 100000 + i, "runs": 10 if q else 20}

    # ------------------------------------------------------------------
    def run_case(self, case: Any, res: CaseResult, tier: str) -> None:
        part = case["part"]
        if part == "procs":
            return self._procs(case, res)
        if part == "fork":
            return self._fork(case, res)
        if part == "s3seq":
            only = case.get("_replay_schedule")
            for j in ([only] if only is not None else range(case["programs"])):
                sub = dict(case, seed=case["seed"] * 1000 + j)
                r = run_s3_seq(sub)
                res.evals += 1
                res.count("s3_seq_programs")
                for cname, v in r["counters"].items():
                    res.count("seq_" + cname, v)
                if r["counters"].get("takeovers") or r["counters"].get("renewal_faults"):
                    res.key(["s3seq", tuple(r["log"])])
                for sig, msg in r["viol"][:1]:
                    res.violation("s3:" + sig, msg + " | history: " + " ".join(r["log"][-14:]), {"case": case, "schedule": j, "log": r["log"]})
            return
        if part == "local":
            with Scratch("c19") as d:
                n = {"i": 0}

                def run_once(dev: Sequence[Tuple[int, str, int]]) -> Tuple[Scripted, Any]:
                    n["i"] += 1
                    strat = Scripted(dev)
                    return strat, run_local(case, strat, str(d), n["i"])

                st = explore_bounded(run_once, case["k"], (case["shard"], case["nshards"]), max_runs=case["max_runs"],
                                     on_result=lambda dev, r: self._record(case, dev, r, res, "local"))
                res.count("dfs_truncated", st["truncated"])
        elif part == "s3":
            def run_once(dev: Sequence[Tuple[int, str, int]]) -> Tuple[Scripted, Any]:
                strat = Scripted(dev)
                return strat, run_s3(case, strat)

            st = explore_bounded(run_once, case["k"], (case["shard"], case["nshards"]), max_runs=case["max_runs"],
                                 on_result=lambda dev, r: self._record(case, dev, r, res, "s3"))
            res.count("dfs_truncated", st["truncated"])
        else:
            for j in range(case["runs"]):
                s = f"{case['seed']}:{j}"
                strat = PCT(s, depth=3, est_steps=60) if case["mode"] == "pct" else RandomWalk(s, stay=0.6)
                self._record(case, [("strategy", case["mode"], s)], run_s3(case, strat), res, "s3")

    def _record(self, case: Any, dev: Any, r: Dict[str, Any], res: CaseResult, kind: str) -> None:
        res.evals += 1
        wit = {"case": case, "schedule": [list(x) for x in dev], "events": r["events"],
               "trace": [f"{a}:{l}" for a, l in r["trace"]][-200:], "counters": r["counters"]}
        if r["outcome"] != "ok":
            res.violation(f"{kind}:no-progress:{r['outcome']}", f"scheduler outcome {r['outcome']} after {r['steps']} steps", wit)
            return
        res.count(f"{kind}_executions")
        res.count("takeovers", r["counters"].get("takeovers", 0))
        res.count("lease_expiries", r["counters"].get("lease_expiries", 0))
        for cname in ("heartbeats", "renewal_faults", "wrongful_deletes", "flock_faults"):
            if r["counters"].get(cname):
                res.count(cname, r["counters"][cname])
        nt = sum(1 for e in r["events"] if e.get("outcome") == "timeout")
        res.count("timeouts_observed", nt)
        if r["contended"] or nt:
            res.key(kind + r["trace_key"])
        for sig, msg in r["viol"][:3]:
            res.violation(f"{kind}:{sig}", msg, wit)
        if not r["viol"] and (r["contended"] or nt) and len(res.samples) < 2:
            res.sample({"part": kind, "config": {k: v for k, v in case.items() if k not in ("shard", "nshards", "max_runs")},
                        "schedule_deviations": [list(x) for x in dev], "events": r["events"],
                        "trace_tail": wit["trace"][-20:]})

    # ---- (b) real processes -------------------------------------------------------------
    def _fork(self, case: Any, res: CaseResult) -> None:
        """fork() scenarios: lock instances inherited by a child (warm; held), the lock file re-created while free.
        Every claim is cross-checked against a raw flock probe of the kernel state (vf/procs/forker.py)."""
        import json as _json
        with Scratch("c19f") as d:
            try:
                p = subprocess.run([sys.executable, "-W", "ignore", "-m", "vf.procs.forker", str(d), "filelock"], cwd=str(VERIF),
                                   env=dict(os.environ, PYTHONHASHSEED="0"), capture_output=True, timeout=120)
            except subprocess.TimeoutExpired:
                res.inconclusive.append("fork scenarios: watchdog (120 s) fired")
                return
            lines = [l for l in p.stdout.decode(errors="replace").splitlines() if l.startswith("{")]
            if p.returncode != 0 or len(lines) < 4:
                # the driver itself failed: nothing was decided about the lock
                res.inconclusive.append(f"fork scenario driver ended rc={p.returncode} after {len(lines)} scenarios: "
                                        f"{p.stderr.decode(errors='replace')[-300:]}")
            for l in lines:
                o = _json.loads(l)
                res.evals += 1
                res.count("fork_scenarios")
                res.key(["fork", o["scenario"]])
                for sig, msg in o["violations"]:
                    res.violation("local:" + sig, f"{o['scenario']}: {msg}", {"case": case, "observations": o["observations"]})
                if not o["violations"] and len(res.samples) < 1:
                    res.sample({"part": "fork", "scenario": o["scenario"], "observations": o["observations"]})

    def _procs(self, case: Any, res: CaseResult) -> None:
        rng = random.Random(case["seed"])
        with Scratch("c19p") as d:
            d = str(d)
            env = dict(os.environ, PYTHONHASHSEED="0")

            def start(i: int) -> subprocess.Popen:
                return subprocess.Popen([sys.executable, "-m", "vf.procs.locker", d, str(i), str(case["rounds"]),
                                         str(case["seed"])], cwd=str(VERIF), env=env,
                                        stdout=subprocess.DEVNULL, stderr=subprocess.PIPE)

            procs = {i: start(i) for i in range(case["nproc"])}
            killed: List[int] = []
            deadline = _time.time() + 240
            nxt = case["nproc"]
            kills_left = 6
            while any(p.poll() is None for p in procs.values()) and _time.time() < deadline:
                _time.sleep(0.05 + rng.random() * 0.1)
                live = [i for i, p in procs.items() if p.poll() is None]
                if live and kills_left > 0 and rng.random() < 0.5:
                    v = rng.choice(live)
                    procs[v].send_signal(signal.SIGKILL)
                    procs[v].wait()
                    killed.append(procs[v].pid)
                    kills_left -= 1
                    procs[nxt] = start(nxt)      # a replacement contender
                    nxt += 1
            for p in procs.values():
                if p.poll() is None:
                    p.kill()
                    res.inconclusive.append("lock stress worker hit the watchdog")
                    return
            errs = [p.stderr.read().decode()[-300:] for p in procs.values() if p.returncode not in (0, -9)]
            if errs:
                res.inconclusive.append(f"lock stress worker crashed: {errs[0]}")
                return
            lines = open(os.path.join(d, "log")).read().split("\n")
            cur: Optional[str] = None
            sections = 0
            died_inside = 0
            wit = {"case": case, "killed_pids": killed}
            res.evals += 1
            for ln, line in enumerate(lines):
                parts = line.split()
                if len(parts) < 2:
                    continue
                tag, pid = parts[0], parts[1]
                if tag == "E":
                    if cur is not None:
                        if int(cur) in killed:
                            died_inside += 1      # the previous holder was killed inside its section
                        else:
                            wit["log_excerpt"] = lines[max(0, ln - 4): ln + 2]
                            res.violation("procs:overlapping-sections", f"pid {pid} entered while pid {cur} was inside", wit)
                            return
                    cur = pid
                elif tag == "X":
                    if cur != pid:
                        wit["log_excerpt"] = lines[max(0, ln - 4): ln + 2]
                        res.violation("procs:exit-without-enter", f"pid {pid} exits but holder is {cur}", wit)
                        return
                    cur = None
                    sections += 1
                elif tag == "T":
                    res.violation("procs:timeout-under-stress", f"pid {pid} timed out after 60 s", wit)
                    return
            if cur is not None and int(cur) in killed:
                died_inside += 1
            try:
                counter = int(open(os.path.join(d, "counter")).read().strip() or 0)
            except (FileNotFoundError, ValueError):
                counter = -1
            res.count("stress_sections", sections)
            res.count("stress_kills", len(killed))
            res.count("stress_killed_inside_section", died_inside)
            res.count("local_executions")
            res.key(["procs", case["seed"], sections])
            if not (sections <= counter <= sections + died_inside):
                res.violation("procs:counter-mismatch", f"counter {counter}, completed sections {sections}, killed inside {died_inside}", wit)
            if len(res.samples) < 1:
                res.sample({"part": "procs", "processes": case["nproc"], "rounds": case["rounds"], "sections": sections,
                            "killed": len(killed), "killed_inside_section": died_inside, "counter": counter})


if __name__ == "__main__":
    raise SystemExit(C19().main())
