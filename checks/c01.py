"""C01 - concurrent commits are serializable: no acknowledged write lost or duplicated.

Real threads run real commits under the cooperative scheduler (E1) with gates at
every storage operation (local) / every S3 request (CAS-S3 double).  Oracle, linear
in the history: every successful pointer write is attributed to its actor; the
metadata it publishes must differ from the *immediately preceding* pointer target by
exactly that actor's operation (so a commit derived from a stale base shows up as a
delta that undoes somebody else's commit); acked <=> owns exactly one flip; raised
<=> owns none; the final table equals the last flip.
"""
from __future__ import annotations

import itertools
import os
import time
from typing import Any, Dict, List, Optional, Sequence, Set, Tuple

from vf import reader, tables
from vf.common import CaseResult, Check, Scratch, rng_for
from vf.interpose import GlobalPatch, Interposer, patch_datetime
from vf.scenario import ClientLog, FlipLog, Instance, Template, s3_weather
from vf.sched import (PCT, RandomWalk, ReplayNames, Scheduler, SchedEnv, Scripted, adopt,
                      explore_bounded)

OPKINDS = ["append", "multi", "delete", "expire", "delsnap"]


def build_seed(path: str) -> None:
    import datashard as ds

    t = ds.create_table(path, schema=tables.std_schema())
    for ids in ([1, 2], [3], [4, 5]):
        t.append_records(tables.rows(ids))
        time.sleep(0.003)


class Exec:
    """One scheduled execution of a scenario."""

    def __init__(self, case: Dict[str, Any], tmpl: Template, ip: Interposer):
        self.case = case
        self.tmpl = tmpl
        self.ip = ip

    def run(self, strategy: Any, seed: int = 0) -> Dict[str, Any]:
        import datashard as ds

        case = self.case
        ops: List[str] = case["ops"]
        inst = self.tmpl.clone()
        with inst, GlobalPatch() as gp:
            blobs = inst.blobs()
            tv0 = reader.read_table(blobs, rows=False)
            seeds = sorted(tv0.snapshots, key=lambda s: s.seq)
            seed_files = [s.files[-1] for s in seeds]   # the file each seed snapshot added
            if case["clock"] == "frozen":
                T = max(s.ts for s in seeds) / 1000.0 + 10.0
                patch_datetime(gp, lambda: T)
            elif case["clock"] == "coarse":
                T0 = max(s.ts for s in seeds) / 1000.0 + 10.0
                cnt = {"n": 0}

                def coarse() -> float:
                    cnt["n"] += 1
                    return T0 + (cnt["n"] // 25) * 0.001

                patch_datetime(gp, coarse)
            sched = Scheduler(strategy, seed=seed, max_steps=case.get("max_steps", 2500))
            flips = FlipLog(sched)
            clog = ClientLog(sched)
            shared = ds.load_table(inst.table_path) if case["topology"] == "shared" else None
            handles = []
            for i, kind in enumerate(ops):
                t = shared if shared is not None else ds.load_table(inst.table_path)
                handles.append(t)
                name = "ABCD"[i]
                fn, info = self._opfn(kind, i, t, seeds, seed_files)
                sched.spawn(name, clog.wrap(name, kind, fn, **info))
            adopt(sched, *{id(h): h for h in handles}.values())
            self.ip.after.append(flips.l1_after)
            if inst.store is not None:
                inst.store.after.append(flips.s3_after)
                inst.store.keep_log = False
                s3_weather(case.get("weather"), inst.store, sched)
            checker = FlipChecker(blobs, tv0, clog, flips, seeds)
            sched.monitors.append(checker.on_step)
            try:
                with SchedEnv(sched, self.ip, inst.store):
                    outcome = sched.run()
            finally:
                self.ip.after.remove(flips.l1_after)
            final = reader.read_table(blobs, rows=False)
            checker._fill_rows(final)
            checker.finish(final, outcome, sched)
            cas_conflicts = 0
            contention = (sched.counters.get("virtual_sleeps", 0) + sched.counters.get("rlock_waits", 0)
                          + sched.counters.get("flock_waits", 0))
            return {"outcome": outcome, "viol": checker.viol, "trace_key": sched.trace_key(),
                    "steps": sched.nstep, "contention": contention, "flips": len(flips.flips),
                    "events": clog.events, "trace": sched.trace_names(),
                    "flip_log": [(s, a, t) for s, a, t in flips.flips],
                    "raised": [e for e in clog.events if e["outcome"] == "raised"],
                    "counters": dict(sched.counters)}

    def _opfn(self, kind: str, i: int, t: Any, seeds: Any, seed_files: List[str]) -> Tuple[Any, Dict[str, Any]]:
        base = 1000 * (i + 1)
        if kind == "append":
            ids = [base + 1, base + 2]
            return (lambda: t.append_records(tables.rows(ids))), {"ids": ids}
        if kind == "multi":
            ids = [base + 1, base + 2, base + 3]

            def multi() -> Any:
                with t.new_transaction() as tx:
                    tx.append_data(tables.rows(ids[:1]))
                    tx.append_data(tables.rows(ids[1:]))
                    return tx.commit()

            return multi, {"ids": ids}
        if kind == "delete":
            victim = seed_files[i % 2]

            def delete() -> Any:
                with t.new_transaction() as tx:
                    tx.delete_files(["/" + victim])
                    return tx.commit()

            return delete, {"victim": victim}
        if kind == "expire":
            cutoff = seeds[0].ts + 1

            def expire() -> Any:
                with t.new_transaction() as tx:
                    tx.expire_snapshots(cutoff)
                    return tx.commit()

            return expire, {"cutoff": cutoff}
        if kind == "delsnap":
            sid = seeds[(i + 1) % 2].id   # A -> s2, B -> s1 (never the current snapshot)
            return (lambda: t.snapshot_manager.delete_snapshot(sid)), {"sid": sid}
        raise ValueError(kind)


class FlipChecker:
    def __init__(self, blobs: reader.Blobs, tv0: reader.TableView, clog: ClientLog, flips: FlipLog, seeds: Any):
        self.blobs = blobs
        self.prev = tv0
        self.clog = clog
        self.flips = flips
        self.seen = 0
        self.viol: List[Tuple[str, str]] = []
        self.owner_flips: Dict[str, int] = {}
        self.file_rows: Dict[str, List[str]] = {}
        self.created: Dict[str, List[int]] = {}
        self._fill_rows(tv0)

    def _rows_of_file(self, f: str) -> List[str]:
        if f not in self.file_rows:
            self.file_rows[f] = reader.canon_rows(reader.read_rows(self.blobs, f))
        return self.file_rows[f]

    def _fill_rows(self, tv: reader.TableView) -> None:
        """rows of the CURRENT snapshot only, through a per-file cache (files are immutable)."""
        cur = tv.current()
        if cur is None or cur.error is not None:
            return
        try:
            rows: List[str] = []
            for f in cur.files:
                rows.extend(self._rows_of_file(f))
            cur.rows = sorted(rows)
        except reader.ReadError as e:
            cur.error = str(e)
            cur.rows = None

    def on_step(self, sched: Any, actor: Any) -> None:
        while self.seen < len(self.flips.flips):
            step, who, target = self.flips.flips[self.seen]
            self.seen += 1
            self._check_flip(step, who, target)

    def _bad(self, sig: str, msg: str) -> None:
        self.viol.append((sig, msg))

    def _check_flip(self, step: int, who: Optional[str], target: str) -> None:
        new = reader.read_table(self.blobs, metadata_name=target, rows=False)
        self._fill_rows(new)
        prev = self.prev
        if new.meta is None:
            self._bad("flip-to-unreadable-metadata", f"pointer flipped to {target} which the independent reader cannot read: {new.error}")
            return
        self.prev = new
        if who is None:
            self._bad("flip-by-unknown-thread", f"pointer written by a non-actor thread at step {step}")
            return
        self.owner_flips[who] = self.owner_flips.get(who, 0) + 1
        ev = next((e for e in self.clog.events if e["actor"] == who), None)
        kind = ev["op"]
        pids, nids = [s.id for s in prev.snapshots], [s.id for s in new.snapshots]
        added = [i for i in nids if i not in pids]
        removed = [i for i in pids if i not in nids]
        ctx = f"flip#{self.seen} by {who} ({kind}) -> {target}"
        if new.uuid != prev.uuid:
            self._bad("uuid-changed", ctx)
        plsn = prev.meta.get("last_sequence_number", 0)
        nlsn = new.meta.get("last_sequence_number", 0)
        if nlsn < plsn:
            self._bad("lsn-decreased", f"{ctx}: last_sequence_number {plsn} -> {nlsn}")
        if kind in ("append", "multi", "delete"):
            if len(added) != 1 or removed:
                self._bad(f"flip-delta-mismatch:{kind}",
                          f"{ctx}: relative to the preceding pointer target, snapshots added={added} removed={removed} "
                          f"(expected exactly one added, none removed) - the commit was not derived from the version it replaced")
                return
            sv = new.snap(added[0])
            self.created.setdefault(who, []).append(sv.id)
            if new.current_id != sv.id:
                self._bad("new-snapshot-not-current", ctx)
            pc = prev.current_id
            if (sv.parent if sv.parent not in (None, -1) else None) != pc:
                self._bad("parent-not-previous-current", f"{ctx}: parent {sv.parent}, previous current {pc}")
            if sv.seq is None or sv.seq <= plsn:
                self._bad("sequence-not-increasing", f"{ctx}: sequence {sv.seq} after last_sequence_number {plsn}")
            if sv.error is not None:
                self._bad("committed-snapshot-unreadable", f"{ctx}: {sv.error}")
                return
            exp = list(prev.current_rows())
            if kind in ("append", "multi"):
                exp += reader.canon_rows(tables.rows(ev["ids"]))
            else:
                pcur = prev.current()
                if pcur is not None and ev["victim"] in pcur.files:
                    for r in self._rows_of_file(ev["victim"]):
                        exp.remove(r)
            if sorted(exp) != sv.rows:
                self._bad(f"rows-delta-mismatch:{kind}",
                          f"{ctx}: rows of the new snapshot are not (rows of the replaced version) + this commit: "
                          f"{len(sv.rows)} rows vs expected {len(exp)}")
        else:
            if added:
                self._bad(f"flip-delta-mismatch:{kind}", f"{ctx}: metadata-only commit added snapshots {added} "
                          f"(resurrected from a stale base)")
                return
            if kind == "expire":
                exp_removed = [s.id for s in prev.snapshots if s.ts < ev["cutoff"] and s.id != prev.current_id]
            else:
                exp_removed = [ev["sid"]] if ev["sid"] in pids else []
            if sorted(removed) != sorted(exp_removed):
                self._bad(f"flip-delta-mismatch:{kind}", f"{ctx}: removed {removed}, expected {exp_removed}")
            if new.current_id != prev.current_id:
                self._bad("current-changed-by-metadata-only-commit", ctx)
            # untouched snapshots keep a retained (or no) parent
        retained = set(nids)
        for s in new.snapshots:
            if s.parent not in (None, -1) and s.parent not in retained:
                self._bad("dangling-parent", f"{ctx}: snapshot {s.id} has parent {s.parent} not retained")

    def finish(self, final: reader.TableView, outcome: str, sched: Any) -> None:
        self.on_step(sched, None)
        if outcome != "ok":
            return
        for e in self.clog.events:
            n = self.owner_flips.get(e["actor"], 0)
            if e["outcome"] == "acked":
                noop = e["op"] == "delsnap" and e.get("result") == "False"
                if n != (0 if noop else 1):
                    self._bad(f"acked-without-single-flip:{e['op']}",
                              f"{e['actor']} ({e['op']}) reported success but owns {n} pointer flips")
            elif e["outcome"] == "raised":
                if n != 0 and e.get("exc_type") != "AmbiguousCommitError":
                    self._bad(f"raised-but-committed:{e['op']}",
                              f"{e['actor']} ({e['op']}) raised {e.get('error')} but its commit is visible")
            else:
                self._bad("op-never-returned", f"{e['actor']} ({e['op']}) did not return")
        if final.pointer != self.prev.pointer or final.meta is None:
            self._bad("final-pointer-mismatch", f"final pointer {final.pointer} != last observed flip {self.prev.pointer}")
            return
        # chain of retained snapshots linear, sequence numbers strictly increasing
        cur = final.current()
        seen: Set[int] = set()
        chain = []
        while cur is not None and cur.id not in seen:
            seen.add(cur.id)
            chain.append(cur)
            cur = final.snap(cur.parent) if cur.parent not in (None, -1) else None
        if len(chain) != len(final.snapshots):
            self._bad("chain-not-linear", f"{len(final.snapshots)} retained snapshots but the parent chain from current has {len(chain)}")
        seqs = [s.seq for s in reversed(chain)]
        if any(b <= a for a, b in zip(seqs, seqs[1:])):
            self._bad("sequence-not-increasing", f"sequence numbers along the chain: {seqs}")
        # no duplicate / missing ids in the final current rows
        rows = final.current_rows() if final.current() is not None and final.current().error is None else None
        if rows is not None and len(rows) != len(set(rows)):
            self._bad("duplicate-rows", "a row appears twice in the final table")


class C01(Check):
    pid = "C01"
    level = "exploration"
    rule = ("2 committers (all ordered pairs over {append, multi-append txn, delete_files, expire_snapshots, "
            "delete_snapshot}) x topology {shared Table handle, separate handles} x backend {local, CAS-S3 double} x "
            "clock {real, frozen, coarse}: bounded-preemption DFS enumerates ALL schedules with <=k context switches at "
            "L1-operation (local) / S3-request granularity (quick k=1 everywhere + k=2 on key pairs; thorough k=2 "
            "everywhere, k=3 on key pairs); 3-4 committers under PCT(d=3) and random walks; CAS-S3 cells additionally with "
            "'weather' on one committer's first pointer PUT (503 before effect | applied + lost response | applied + 412 on "
            "the transport's retry). distinct = distinct gate-level "
            "trace; non-trivial = execution with >=1 lock wait / commit back-off / CAS conflict")
    assumptions = [
        "pointer-flip order is observed at the storage boundary (successful write of metadata.version-hint.text)",
        "multi-process topology is exercised by the stress part under the OS scheduler (one small run in quick, 8 larger in thorough)",
        "S3 double = strongly consistent store with conditional PUT",
    ]
    require = {"executions_ok": 100, "flips_checked": 100, "contended_executions": 10}
    worker_timeout_s = {"quick": 1500, "thorough": 7200}

    KEY_PAIRS = [("append", "append"), ("append", "delsnap"), ("append", "expire"), ("delete", "append"),
                 ("delsnap", "delete"), ("multi", "append")]

    def gen_cases(self, tier: str, seed: int):
        pairs = list(itertools.product(OPKINDS, OPKINDS))
        cells = [("separate", "local", "real"), ("shared", "local", "frozen"), ("separate", "local", "frozen"),
                 ("separate", "s3", "real"), ("shared", "s3", "coarse"), ("shared", "local", "real"),
                 ("separate", "s3", "frozen"), ("separate", "local", "coarse")]
        nsh_small, nsh_big = 1, 8
        if tier == "quick":
            for (a, b) in pairs:
                if a > b:
                    continue   # unordered at k=1 (both start orders are enumerated anyway)
                for ci, (topo, be, clock) in enumerate(cells[:3]):
                    yield {"mode": "dfs", "ops": [a, b], "topology": topo, "backend": be, "clock": clock, "k": 1,
                           "shard": 0, "nshards": nsh_small}
            for (a, b), (topo, be, clock) in [(("append", "delsnap"), ("separate", "local", "frozen")),
                                              (("append", "append"), ("separate", "s3", "real"))]:
                for sh in range(nsh_big):
                    yield {"mode": "dfs", "ops": [a, b], "topology": topo, "backend": be, "clock": clock, "k": 2,
                           "shard": sh, "nshards": nsh_big}
            for w in ("503_before", "lost_response", "applied_412"):
                for (a, b) in [("append", "append"), ("delete", "append"), ("append", "delsnap")]:
                    yield {"mode": "dfs", "ops": [a, b], "topology": "separate", "backend": "s3", "clock": "real", "k": 1,
                           "shard": 0, "nshards": 1, "weather": w}
            nrand = 48
        else:
            for (a, b) in pairs:
                if a > b:
                    continue
                for (topo, be, clock) in cells:
                    for sh in range(nsh_big):
                        yield {"mode": "dfs", "ops": [a, b], "topology": topo, "backend": be, "clock": clock, "k": 2,
                               "shard": sh, "nshards": nsh_big}
            for (a, b) in self.KEY_PAIRS[:2]:
                for (topo, be, clock) in [("separate", "local", "frozen"), ("separate", "s3", "real")]:
                    for sh in range(64):
                        yield {"mode": "dfs", "ops": [a, b], "topology": topo, "backend": be, "clock": clock, "k": 3,
                               "shard": sh, "nshards": 64, "max_runs": 4000}
            for w in ("503_before", "lost_response", "applied_412"):
                for (a, b) in pairs:
                    for topo in ("separate", "shared"):
                        for sh in range(4):
                            yield {"mode": "dfs", "ops": [a, b], "topology": topo, "backend": "s3", "clock": "real", "k": 2,
                                   "shard": sh, "nshards": 4, "weather": w, "max_runs": 3000}
            nrand = 600
        for i in range(nrand):
            rng = rng_for(seed, "c01r", i)
            n = rng.choice([3, 3, 4])
            ops = [rng.choice(OPKINDS) for _ in range(n)]
            topo, be, clock = rng.choice(cells)
            yield {"mode": rng.choice(["pct", "pct", "random"]), "ops": ops, "topology": topo, "backend": be,
                   "clock": clock, "seed": seed * 100000 + i, "runs": 6 if tier == "quick" else 12,
                   "weather": rng.choice([None, None, "503_before", "lost_response", "applied_412"]) if be == "s3" else None}
        if tier == "thorough":
            for i in range(8):
                yield {"mode": "procs", "nproc": 4 + (i % 3) * 2, "commits": 25, "seed": seed * 1000 + i}
        else:
            yield {"mode": "procs", "nproc": 4, "commits": 8, "seed": seed * 1000}

    # ------------------------------------------------------------------
    def run_case(self, case: Any, res: CaseResult, tier: str) -> None:
        if case["mode"] == "procs":
            return self._procs(case, res)
        ip = Interposer().install()
        try:
            with Scratch("c01") as d:
                tmpl = Template(case["backend"], str(d))
                tmpl.build(build_seed)
                ex = Exec(case, tmpl, ip)
                if case.get("_replay_schedule") is not None and case["mode"] == "dfs":
                    dev = [tuple(x) for x in case["_replay_schedule"]]
                    strat = Scripted(dev)
                    self._record(case, dev, ex.run(strat), res)
                elif case["mode"] == "dfs":
                    def run_once(dev: Sequence[Tuple[int, str, int]]) -> Tuple[Scripted, Any]:
                        strat = Scripted(dev)
                        return strat, ex.run(strat)

                    def on_result(dev: Any, r: Dict[str, Any]) -> None:
                        self._record(case, dev, r, res)

                    st = explore_bounded(run_once, case["k"], (case["shard"], case["nshards"]),
                                         max_runs=case.get("max_runs", 100000), on_result=on_result)
                    res.count("dfs_truncated", st["truncated"])
                    res.count("dfs_infeasible", st["infeasible"])
                else:
                    for j in range(case["runs"]):
                        s = f"{case['seed']}:{j}"
                        strat = PCT(s, depth=3, est_steps=60 * len(case["ops"])) if case["mode"] == "pct" \
                            else RandomWalk(s, stay=0.7)
                        r = ex.run(strat, seed=j)
                        self._record(case, [("strategy", case["mode"], s)], r, res)
        finally:
            ip.uninstall()

    def _record(self, case: Any, dev: Any, r: Dict[str, Any], res: CaseResult) -> None:
        res.evals += 1
        if r["outcome"] != "ok":
            res.count(f"outcome_{r['outcome']}")
            # deadlock / step-budget overrun are their own class (bounded progress), reported as violations
            res.violation(f"no-progress:{r['outcome']}:{'+'.join(sorted(case['ops']))}",
                          f"execution ended with scheduler outcome '{r['outcome']}' after {r['steps']} steps",
                          {"case": case, "schedule": [list(x) for x in dev], "events": r["events"], "trace_tail": r["trace"][-40:]})
            return
        res.count("executions_ok")
        res.count("flips_checked", r["flips"])
        if r["counters"].get("weather_fired"):
            res.count("executions_with_s3_weather")
        if r["contention"]:
            res.count("contended_executions")
            res.key(r["trace_key"])
        for e in r["raised"]:
            res.count("ops_raised")
            res.count(f"raised_{e['op']}_{e.get('exc_type')}")
        for sig, msg in r["viol"][:3]:
            cls = sig
            res.violation(cls, msg, {"case": case, "schedule": [list(x) for x in dev], "events": r["events"],
                                     "flips": r["flip_log"], "trace": r["trace"]})
        if not r["viol"] and r["contention"] and len(res.samples) < 2:
            res.sample({"ops": case["ops"], "topology": case["topology"], "backend": case["backend"],
                        "clock": case["clock"], "schedule_deviations": [list(x) for x in dev],
                        "steps": r["steps"], "pointer_flips": r["flip_log"],
                        "client_events": [{k: e[k] for k in ("actor", "op", "call", "ret", "outcome")} for e in r["events"]]})

    # ---- multi-process stress (real OS scheduling) -----------------------
    def _procs(self, case: Any, res: CaseResult) -> None:
        import subprocess
        import sys

        from vf.common import VERIF

        with Scratch("c01p") as d:
            root = str(d / "t")
            build_seed(root)
            procs = []
            for p in range(case["nproc"]):
                procs.append(subprocess.Popen(
                    [sys.executable, "-m", "vf.procs.committer", root, str(p), str(case["commits"]),
                     str(case["seed"])], cwd=str(VERIF), stdout=subprocess.PIPE, stderr=subprocess.PIPE))
            acked: List[int] = []
            raised = 0
            for p in procs:
                try:
                    out, err = p.communicate(timeout=600)
                except subprocess.TimeoutExpired:
                    p.kill()
                    res.inconclusive.append("stress worker hit the watchdog")
                    return
                for line in out.decode().splitlines():
                    if line.startswith("ACK "):
                        acked += [int(x) for x in line.split()[1:]]
                    elif line.startswith("RAISED"):
                        raised += 1
            tv = reader.read_table(reader.Blobs.local(root))
            res.evals += 1
            res.count("stress_commits_acked", len(acked) // 2)
            res.count("executions_ok")
            res.count("flips_checked", len(acked) // 2)
            res.count("contended_executions")
            res.key(["procs", case["nproc"], case["seed"]])
            exp = sorted(reader.canon_rows(tables.rows([1, 2, 3, 4, 5] + acked)))
            wit = {"case": case, "acked_ids": len(acked), "raised": raised}
            if tv.meta is None or tv.current() is None or tv.current().error:
                res.violation("stress-table-unreadable", "table unreadable after multi-process stress", wit)
                return
            if tv.current_rows() != exp:
                got = tv.current_rows()
                missing = len(set(exp) - set(got))
                extra = len(got) - len(set(got))
                res.violation("stress-lost-or-duplicated", f"{missing} acked rows missing, {extra} duplicated", wit)
                return
            chain = []
            cur = tv.current()
            seen = set()
            while cur is not None and cur.id not in seen:
                seen.add(cur.id)
                chain.append(cur)
                cur = tv.snap(cur.parent) if cur.parent not in (None, -1) else None
            if len(chain) != len(tv.snapshots):
                res.violation("stress-chain-not-linear", f"{len(tv.snapshots)} snapshots, chain {len(chain)}", wit)
            seqs = [s.seq for s in reversed(chain)]
            if any(b <= a for a, b in zip(seqs, seqs[1:])):
                res.violation("stress-sequence-not-increasing", f"{seqs[:20]}", wit)


if __name__ == "__main__":
    raise SystemExit(C01().main())
