"""C17 - no operation escapes the table root.

Exhaustive path grammar x every storage / read entry point x root reached directly
or through a symlink.  Monitors: (1) a process-wide audit hook records every open /
remove / rename / listdir / mkdir ... whose canonical target lies outside the
canonical table root (inside the arena, or a decoy such as /etc/passwd); (2) a
fingerprint of the sentinel tree outside the table; (3) an independent classifier
(lexical join + symlink resolution) decides which strings escape: those must raise.
"""
from __future__ import annotations

import hashlib
import io
import itertools
import json
import os
import sys
import threading
from typing import Any, Dict, List, Optional, Tuple

from vf import tables
from vf.common import CaseResult, Check, Scratch, rng_for

COMPONENTS = ["..", ".", "", "data", "metadata", "x", "link_in", "link_out", "table2"]
DECOYS = ["/etc/passwd", "/etc/hostname"]

_AUDIT = {"on": False, "events": [], "installed": False}
_WATCHED = ("open", "os.remove", "os.rename", "os.listdir", "os.scandir", "os.mkdir", "os.rmdir", "os.truncate",
            "os.utime", "os.chmod", "os.link", "os.symlink", "shutil.rmtree", "shutil.copyfile", "shutil.move",
            "os.unlink", "os.replace")


def _hook(event: str, args: Any) -> None:
    if not _AUDIT["on"] or event not in _WATCHED:
        return
    try:
        paths = []
        for a in args[:2]:
            if isinstance(a, (str, bytes)) and a:
                paths.append(os.fsdecode(a))
        mode = args[1] if event == "open" and len(args) > 1 else None
        flags = args[2] if event == "open" and len(args) > 2 else 0
        _AUDIT["events"].append((event, paths, mode, flags, threading.get_ident()))
    except Exception:
        pass


def install_audit() -> None:
    if not _AUDIT["installed"]:
        sys.addaudithook(_hook)
        _AUDIT["installed"] = True


class Arena:
    def __init__(self, base: str):
        self.base = os.path.realpath(base)
        self.table = os.path.join(self.base, "table")
        self.tlink = os.path.join(self.base, "tlink")
        self.outside = os.path.join(self.base, "outside")
        self.table2 = os.path.join(self.base, "table2")

    def build(self) -> None:
        import datashard as ds

        os.makedirs(self.outside)
        os.makedirs(self.table2 + "/data")
        for n in ("s1.txt", "s2.parquet", "sub/s3.json"):
            p = os.path.join(self.outside, n)
            os.makedirs(os.path.dirname(p), exist_ok=True)
            open(p, "wb").write(f"sentinel {n}".encode())
        open(os.path.join(self.table2, "data", "x"), "wb").write(b"sibling")
        open(os.path.join(self.base, "x"), "wb").write(b"arena-level x")
        t = ds.create_table(self.table, schema=tables.std_schema())
        t.append_records(tables.rows([1, 2]))
        os.makedirs(os.path.join(self.table, "x"), exist_ok=True)
        open(os.path.join(self.table, "x", "f"), "wb").write(b"inside")
        os.symlink(os.path.join(self.table, "x"), os.path.join(self.table, "link_in"))
        os.symlink(self.outside, os.path.join(self.table, "link_out"))
        os.symlink(os.path.join(self.outside, "s1.txt"), os.path.join(self.table, "data", "link_file_out"))
        os.symlink(self.table, self.tlink)
        # a sibling also reachable as a component name
        os.symlink(self.table2, os.path.join(self.table, "table2"))

    def fingerprint(self) -> Dict[str, Tuple[int, str, int]]:
        out = {}
        for root in (self.outside, self.table2):
            for d, _dirs, files in os.walk(root):
                for f in files:
                    p = os.path.join(d, f)
                    st = os.stat(p)
                    out[p] = (st.st_size, hashlib.sha1(open(p, "rb").read()).hexdigest(), st.st_mtime_ns)
        p = os.path.join(self.base, "x")
        st = os.stat(p)
        out[p] = (st.st_size, hashlib.sha1(open(p, "rb").read()).hexdigest(), st.st_mtime_ns)
        out["<names>"] = (0, ",".join(sorted(os.listdir(self.base) + os.listdir(self.outside) + os.listdir(self.table2))), 0)
        return out

    def escapes(self, root_spelling: str, p: str) -> bool:
        """independent classifier: does this string, read as table-relative, leave the canonical root?"""
        canon = os.path.realpath(self.table)
        eff = os.path.join(root_spelling, p.lstrip("/"))
        res = os.path.realpath(eff)
        return not (res == canon or res.startswith(canon + os.sep))

    def outside_events(self, events: List[Any]) -> List[str]:
        canon = os.path.realpath(self.table)
        bad = []
        for ev, paths, mode, flags, _tid in events:
            for p in paths:
                if not os.path.isabs(p):
                    p = os.path.join(os.getcwd(), p)
                creating = ev in ("os.mkdir", "os.symlink", "os.link") or (
                    ev == "open" and isinstance(flags, int) and flags & (os.O_CREAT | os.O_WRONLY | os.O_RDWR))
                if creating or ev in ("os.remove", "os.unlink", "os.rename", "os.replace", "os.rmdir"):
                    rp = os.path.join(os.path.realpath(os.path.dirname(p)), os.path.basename(p))
                else:
                    rp = os.path.realpath(p)
                in_arena = rp == self.base or rp.startswith(self.base + os.sep)
                in_table = rp == canon or rp.startswith(canon + os.sep)
                decoy = os.path.realpath(p) in [os.path.realpath(d) for d in DECOYS]
                if (in_arena and not in_table) or decoy:
                    bad.append(f"{ev}({p}) -> {rp}")
        return bad


def grammar(depth: int) -> List[str]:
    out = []
    for n in range(1, depth + 1):
        for comps in itertools.product(COMPONENTS, repeat=n):
            s = "/".join(comps)
            out.append(s)
            out.append("/" + s)
    return sorted(set(out))


def entry_points(t: Any) -> List[Tuple[str, Any]]:
    from datashard.data_structures import DataFile, FileFormat

    st = t.storage
    dfm = t.file_manager.data_file_manager
    fm = t.file_manager

    def append_files(p: str) -> Any:
        with t.new_transaction() as tx:
            tx.append_files([DataFile(file_path=p, file_format=FileFormat.PARQUET, partition_values={},
                                      record_count=1, file_size_in_bytes=1)])
            tx.commit()

    def delete_files(p: str) -> Any:
        with t.new_transaction() as tx:
            tx.delete_files([p])
            tx.commit()

    def open_and_read(f: Any) -> Any:
        def g(p: str) -> Any:
            with f(p) as h:
                return h.read(16)
        return g

    return [
        ("storage.read_file", st.read_file),
        ("storage.open_file", open_and_read(st.open_file)),
        ("storage.open_seekable", open_and_read(st.open_seekable)),
        ("storage.read_json", st.read_json),
        ("storage.exists", st.exists),
        ("storage.list_files", st.list_files),
        ("storage.get_size", st.get_size),
        ("storage.get_modified_time", st.get_modified_time),
        ("storage.write_file", lambda p: st.write_file(p, b"w")),
        ("storage.write_json", lambda p: st.write_json(p, {"a": 1})),
        ("storage.delete_file", st.delete_file),
        ("storage.makedirs", st.makedirs),
        ("storage.create_lock", lambda p: st.create_lock(p, timeout=0.01)),
        ("dfm._get_arrow_path", dfm._get_arrow_path),
        ("dfm.open_parquet_source", open_and_read(dfm.open_parquet_source)),
        ("dfm.read_data_file", dfm.read_data_file),
        ("dfm.write_data_file", lambda p: dfm.write_data_file(p, tables.rows([9]), tables.std_schema())),
        ("fm.validate_file_exists", fm.validate_file_exists),
        ("fm.read_manifest_file", fm.read_manifest_file),
        ("fm.read_manifest_list_file", fm.read_manifest_list_file),
        ("tx.append_files", append_files),
        ("tx.delete_files", delete_files),
    ]


class C17(Check):
    pid = "C17"
    level = "exploration"
    exhaustive = True
    rule = ("arena: table + sibling 'table2' + outside sentinels; inside the table symlinks to an inner dir, to the outside "
            "dir, to an outside file and to the sibling; root opened directly and through a symlink. ALL path strings of "
            "depth <=3 (quick) / <=4 (thorough) over {.., ., '', data, metadata, x, link_in, link_out, table2} with and "
            "without leading '/', + absolute paths of sentinels/decoys, x 22 entry points (every StorageBackend method, "
            "create_lock, DataFileManager path/read/write, FileManager readers, append_files, delete_files) x 2 root "
            "spellings; + scans and collections of tables whose manifest entry / manifest path / manifest_list / marker "
            "payload / storage listing was tampered to each escaping string. non-trivial = string the independent "
            "classifier marks escaping (must raise) or that traverses a symlink; distinct by (entry point, string)")
    assumptions = [
        "stat-only probes are not content reads; a leading '/' means table-relative by the library's convention",
        "opens made inside pyarrow's C++ (ParquetWriter on the temp path next to the target) are invisible to audit "
        "hooks; the target directory is chosen by Python code that is monitored",
    ]
    require = {"calls": 5000, "escaping_rejected": 1000, "audit_events_seen": 1000, "tamper_cases": 20}

    def gen_cases(self, tier: str, seed: int):
        depth = 3 if tier == "quick" else 4
        strings = grammar(depth)
        chunks = 32 if tier == "quick" else 128
        for spelling in ("direct", "symlink"):
            for c in range(chunks):
                yield {"part": "grammar", "depth": depth, "chunk": c, "chunks": chunks, "root": spelling}
        for spelling in ("direct", "symlink"):
            for where in ("entry", "manifest_path", "manifest_list", "marker", "listing"):
                yield {"part": "tamper", "where": where, "root": spelling}
        # a directory that was real when a long-lived handle first used it is later replaced by a symlink
        for spelling in ("direct", "symlink"):
            for sub in ("data", "x", "metadata/manifests", "metadata", ".locks", "metadata/inflight"):
                yield {"part": "swap", "sub": sub, "root": spelling}
        # S3 backend: every request must stay under the table's key prefix
        for prefix in ("wh/t", "t", "deep/er/wh/t"):
            for c in range(4):
                yield {"part": "s3keys", "prefix": prefix, "depth": 3 if tier == "quick" else 4, "chunk": c, "chunks": 4}

    def run_case(self, case: Any, res: CaseResult, tier: str) -> None:
        install_audit()
        getattr(self, "_" + case["part"])(case, res)

    # ------------------------------------------------------------------
    def _call(self, arena: Arena, fn: Any, arg: Any) -> Tuple[str, List[str], bool]:
        before = arena.fingerprint()
        _AUDIT["events"] = []
        _AUDIT["on"] = True
        try:
            try:
                fn(arg)
                out = "returned"
            except BaseException as e:  # noqa
                out = "raised:" + type(e).__name__
        finally:
            _AUDIT["on"] = False
        events = _AUDIT["events"]
        bad = arena.outside_events(events)
        changed = arena.fingerprint() != before
        return out, bad + (["sentinel tree changed"] if changed else []), bool(events)

    def _grammar(self, case: Any, res: CaseResult) -> None:
        import datashard as ds

        strings = grammar(case["depth"])
        with Scratch("c17") as d:
            arena = Arena(str(d / "arena"))
            arena.build()
            root = arena.table if case["root"] == "direct" else arena.tlink
            extra = [os.path.join(arena.outside, "s1.txt"), os.path.join(arena.table2, "data", "x")] + DECOYS + \
                    [os.path.join(arena.table, "data") + "/../../outside/s1.txt"]
            mine = [s for i, s in enumerate(strings) if i % case["chunks"] == case["chunk"]]
            if case["chunk"] == 0:
                mine += extra
            t = ds.load_table(root)
            eps = entry_points(t)
            # TRUE absolute spellings that are lexically inside the root (both root spellings) and run through
            # a symlink or '..': the data-file entry points take absolute paths as they are
            canon = os.path.realpath(arena.table)
            absin = {}
            for s0 in mine:
                if not s0.startswith("/") and s0 not in extra and any(x in s0 for x in ("link", "table2", "..")):
                    for base in (canon, root):
                        a = os.path.join(base, s0)
                        rp = os.path.realpath(a)
                        absin[a] = not (rp == canon or rp.startswith(canon + os.sep))
            for s in mine + sorted(absin):
                if s in absin:
                    esc = absin[s]
                elif s.startswith("/") and s not in extra:
                    esc = arena.escapes(root, s)
                elif os.path.isabs(s):
                    esc = True      # a true absolute path outside the table
                else:
                    esc = arena.escapes(root, s)
                for name, fn in eps:
                    if s in absin and not name.startswith("dfm."):
                        continue
                    out, bad, any_ev = self._call(arena, fn, s)
                    res.count("calls")
                    res.evals += 1
                    if any_ev:
                        res.count("audit_events_seen")
                    wit = {"entry_point": name, "path": s, "root": case["root"], "outcome": out, "outside_effects": bad[:5],
                           "classified_escaping": esc}
                    if bad:
                        res.violation(f"outside-access:{name}", f"{name}({s!r}) touched {bad[0]}", wit)
                        return
                    if esc:
                        # delete_files only queues strings that are compared with manifest entries: the
                        # path never reaches storage, so nothing can be "resolved to another file"
                        if out == "returned" and name not in ("storage.create_lock", "tx.delete_files") and not (
                                os.path.isabs(s) and s in extra and name.startswith(("storage.", "fm.", "tx.", "dfm.")) and
                                self._table_relative_ok(name)):
                            res.violation(f"escaping-path-accepted:{name}", f"{name}({s!r}) returned although the path leaves the table root", wit)
                            return
                        res.count("escaping_rejected")
                        if s in absin:
                            res.count("absolute_in_root_escapes_rejected")
                        res.key([name, s if s not in absin else "<root>/" + os.path.relpath(s, canon if s.startswith(canon) else root)])
                    elif "link" in s:
                        res.key([name, s])
                # keep the inside of the table from silting up
            if len(res.samples) < 1:
                res.sample({"root": case["root"], "strings_in_chunk": len(mine), "entry_points": len(eps),
                            "example": {"path": "link_out/s1.txt", "classified": "escaping", "expected": "raise"}})

    def _swap(self, case: Any, res: CaseResult) -> None:
        import datashard as ds

        with Scratch("c17w") as d:
            arena = Arena(str(d / "arena"))
            arena.build()
            root = arena.table if case["root"] == "direct" else arena.tlink
            sub = case["sub"]
            t = ds.load_table(root)
            subdir = os.path.join(arena.table, sub)
            os.makedirs(subdir, exist_ok=True)
            # a file that exists inside before the swap and, under the same name, outside after it
            inside_file = os.path.join(subdir, "victim.bin")
            open(inside_file, "wb").write(b"inside-content")
            outdir = os.path.join(arena.outside, "swapped")
            os.makedirs(outdir, exist_ok=True)
            open(os.path.join(outdir, "victim.bin"), "wb").write(b"OUTSIDE-SECRET")
            rel = f"{sub}/victim.bin"
            eps = entry_points(t)
            # warm: the long-lived handle uses the path while the directory is real
            for name, fn in eps:
                if name in ("storage.delete_file", "tx.append_files", "tx.delete_files", "dfm.write_data_file",
                            "storage.write_file", "storage.write_json", "storage.create_lock", "storage.makedirs"):
                    continue
                try:
                    fn(rel)
                except BaseException:
                    pass
            try:
                t.scan()
            except BaseException:
                pass
            # swap: the real directory moves away, a symlink to the outside takes its name
            os.rename(subdir, subdir + ".moved")
            os.symlink(outdir, subdir)
            for name, fn in eps:
                out, bad, any_ev = self._call(arena, fn, rel)
                res.count("calls")
                res.evals += 1
                if any_ev:
                    res.count("audit_events_seen")
                res.key(["swap", sub, name])
                wit = {"entry_point": name, "path": rel, "root": case["root"], "swapped_dir": sub, "outcome": out,
                       "outside_effects": bad[:5]}
                if bad:
                    res.violation(f"outside-access-after-symlink-swap:{name}",
                                  f"{name}({rel!r}) through a long-lived handle touched {bad[0]} after '{sub}' became a symlink", wit)
                    return
                if out == "returned" and name not in ("storage.create_lock", "tx.delete_files", "storage.exists",
                                                      "fm.validate_file_exists"):
                    res.violation(f"escaping-path-accepted-after-symlink-swap:{name}",
                                  f"{name}({rel!r}) returned although '{sub}' now points outside the table", wit)
                    return
                res.count("escaping_rejected")
            # a whole commit through the long-lived handle (lock file, markers, data, manifests, metadata, pointer)
            for label, fn in (("table.append_records", lambda _x: t.append_records(tables.rows([4242]))),
                              ("table.garbage_collect", lambda _x: t.garbage_collect(0))):
                out, bad, any_ev = self._call(arena, fn, None)
                res.count("calls")
                res.evals += 1
                res.key(["swap", sub, label])
                if bad:
                    res.violation(f"outside-access-after-symlink-swap:{label}",
                                  f"{label} through a long-lived handle touched {bad[0]} after '{sub}' became a symlink",
                                  {"entry_point": label, "root": case["root"], "swapped_dir": sub, "outcome": out, "outside_effects": bad[:5]})
                    return
            if len(res.samples) < 1:
                res.sample({"part": "swap", "directory_replaced_by_symlink": sub, "path": rel, "entry_points": len(eps)})

    def _s3keys(self, case: Any, res: CaseResult) -> None:
        from datashard.storage_backend import S3StorageBackend
        from vf.fakes3 import FakeS3Client, FakeS3Store

        store = FakeS3Store()
        prefix = case["prefix"]
        parent = prefix.rsplit("/", 1)[0] + "/" if "/" in prefix else ""
        store.put_object(Bucket="bkt", Key=f"{prefix}/data/x", Body=b"mine")
        store.put_object(Bucket="bkt", Key=f"{prefix}2/data/x", Body=b"sibling-prefix")
        store.put_object(Bucket="bkt", Key=f"{parent}t2/data/secret", Body=b"neighbour")
        store.put_object(Bucket="bkt", Key="root-level", Body=b"root")
        s3 = S3StorageBackend.__new__(S3StorageBackend)
        s3.bucket, s3.prefix, s3.endpoint_url, s3.access_key, s3.secret_key = "bkt", prefix, None, None, None
        s3.region, s3.use_conditional_writes = "us-east-1", True
        s3.s3 = FakeS3Client(store)
        outside: List[str] = []

        def watch(req: Any) -> None:
            k = req.key
            if not (k == prefix or k.startswith(prefix + "/")):
                outside.append(f"{req.op} {k}")
            # S3 keys are literal, but a '..' segment that a client library or proxy normalises would climb out
        store.before.append(watch)
        others = {k: o.body for k, o in store.objects.items() if not k[1].startswith(prefix + "/")}
        comps = ["..", ".", "", "data", "x", "t2", prefix.split("/")[-1] + "2"]
        import itertools
        strings = []
        for n in range(1, case["depth"] + 1):
            for c in itertools.product(comps, repeat=n):
                strings.append("/".join(c))
                strings.append("/" + "/".join(c))
        strings = sorted(set(strings))
        ops = [("read_file", s3.read_file), ("exists", s3.exists), ("list_files", s3.list_files), ("get_size", s3.get_size),
               ("write_file", lambda p: s3.write_file(p, b"w")), ("delete_file", s3.delete_file),
               ("open_seekable", lambda p: s3.open_seekable(p).read()), ("open_file", lambda p: s3.open_file(p).read()),
               ("get_modified_time", s3.get_modified_time), ("create_lock", lambda p: s3.create_lock(p))]
        import datashard.s3_consistency as s3c
        real_sleep = s3c.time.sleep
        s3c.time.sleep = lambda x: None
        try:
            for i, p in enumerate(strings):
                if i % case["chunks"] != case["chunk"]:
                    continue
                for name, fn in ops:
                    del outside[:]
                    try:
                        fn(p)
                        out = "returned"
                    except BaseException as e:  # noqa
                        out = "raised:" + type(e).__name__
                    res.count("calls")
                    res.evals += 1
                    now_others = {k: o.body for k, o in store.objects.items() if not k[1].startswith(prefix + "/")}
                    if outside or now_others != others:
                        res.violation(f"s3-request-outside-table-prefix:{name}",
                                      f"s3.{name}({p!r}) with table prefix {prefix!r} issued {outside[:2]} / changed a foreign object",
                                      {"prefix": prefix, "path": p, "op": name, "requests": outside[:4]})
                        return
                    if ".." in p.split("/"):
                        res.key(["s3", name, p])
                        res.count("escaping_rejected" if out != "returned" else "s3_dotdot_kept_literal_under_prefix")
        finally:
            s3c.time.sleep = real_sleep
        if len(res.samples) < 1:
            res.sample({"part": "s3keys", "table_prefix": prefix, "strings": len(strings) // case["chunks"], "ops": len(ops)})

    @staticmethod
    def _table_relative_ok(name: str) -> bool:
        # a true absolute path is, by documented convention, re-rooted under the table by the storage
        # layer (so '/etc/passwd' means <root>/etc/passwd): returning (e.g. exists -> False) is fine
        return name != "dfm._get_arrow_path"

    # ------------------------------------------------------------------
    def _tamper(self, case: Any, res: CaseResult) -> None:
        import fastavro

        import datashard as ds
        from vf import reader

        targets = ["../outside/s2.parquet", "link_out/s2.parquet", "/link_out/s2.parquet", "data/../../outside/s2.parquet",
                   "/../table2/data/x", "table2/data/x", "../../../../etc/passwd", "data/link_file_out",
                   "/data/../link_out/sub/s3.json", "..", "link_out",
                   "<ROOT>/link_out/s2.parquet", "<LINKROOT>/link_out/s2.parquet", "<ROOT>/data/../link_out/s2.parquet"]
        for tgt in targets:
            with Scratch("c17t") as d:
                arena = Arena(str(d / "arena"))
                arena.build()
                root = arena.table if case["root"] == "direct" else arena.tlink
                # a true absolute path that is lexically inside the root and leaves it through a symlink
                tgt = tgt.replace("<ROOT>", os.path.realpath(arena.table)).replace("<LINKROOT>", arena.tlink)
                # a real parquet outside, so that a successful escape would yield rows
                import pyarrow as pa
                import pyarrow.parquet as pq
                pq.write_table(pa.table({"id": pa.array([666], pa.int64()), "v": pa.array(["LEAK"])}),
                               os.path.join(arena.outside, "s2.parquet"))
                tv = reader.read_table(reader.Blobs.local(arena.table))
                cur = tv.current()
                where = case["where"]
                if where == "entry":
                    mp = os.path.join(arena.table, reader.norm(cur.manifests[0]))
                    rd = fastavro.reader(open(mp, "rb"))
                    schema, recs = rd.writer_schema, list(rd)
                    recs[0]["data_file"]["file_path"] = tgt
                    recs[0]["data_file"]["checksum"] = None
                    with open(mp, "wb") as f:
                        fastavro.writer(f, schema, recs)
                elif where == "manifest_path":
                    lp = os.path.join(arena.table, reader.norm(cur.manifest_list))
                    rd = fastavro.reader(open(lp, "rb"))
                    schema, recs = rd.writer_schema, list(rd)
                    recs[0]["manifest_path"] = tgt
                    with open(lp, "wb") as f:
                        fastavro.writer(f, schema, recs)
                elif where == "manifest_list":
                    mp = os.path.join(arena.table, "metadata", tv.pointer)
                    m = json.load(open(mp))
                    for s in m["snapshots"]:
                        s["manifest_list"] = tgt
                    json.dump(m, open(mp, "w"))
                elif where == "marker":
                    os.makedirs(os.path.join(arena.table, "metadata/inflight"), exist_ok=True)
                    open(os.path.join(arena.table, "metadata/inflight/zz.parquet.inflight"), "w").write(
                        json.dumps({"file_path": tgt}))
                    tables.age_tree(arena.table, 7200, only=["data", "metadata/manifests"])
                esc = arena.escapes(root, tgt)

                def scan_all(_x: Any) -> Any:
                    t = ds.load_table(root)
                    rows = t.scan()
                    rows += t.scan(verify_checksums=False)
                    rows += [r for b in t.scan_batches(verify_checksums=False) for r in b]
                    t.row_count()
                    return rows

                def collect(_x: Any) -> Any:
                    t = ds.load_table(root)
                    if where == "listing":
                        from datashard.storage_backend import LocalStorageBackend
                        orig = LocalStorageBackend.list_files

                        def fake(self_: Any, prefix: str) -> Any:
                            return orig(self_, prefix) + [tgt]
                        LocalStorageBackend.list_files = fake      # type: ignore
                        try:
                            return t.garbage_collect(grace_period_ms=0)
                        finally:
                            LocalStorageBackend.list_files = orig  # type: ignore
                    return t.garbage_collect(grace_period_ms=0)

                leaked: List[Any] = []

                def scan_capture(x: Any) -> Any:
                    r = scan_all(x)
                    leaked.extend(x for x in r if x.get("v") == "LEAK")
                    return r

                for opname, fn in (("scan", scan_capture), ("collect", collect)):
                    if where in ("marker", "listing") and opname == "scan":
                        continue
                    out, bad, _any = self._call(arena, fn, None)
                    res.count("tamper_cases")
                    res.evals += 1
                    res.key(["tamper", where, tgt, opname])
                    wit = {"tampered": where, "value": tgt, "op": opname, "root": case["root"], "outcome": out,
                           "outside_effects": bad[:5], "classified_escaping": esc}
                    if bad:
                        res.violation(f"outside-access:tampered-{where}:{opname}", f"{opname} with {where}={tgt!r} touched {bad[0]}", wit)
                        return
                    if leaked:
                        res.violation(f"outside-rows-returned:tampered-{where}", f"scan returned rows read from outside the table via {tgt!r}", wit)
                        return
                    if esc and opname == "scan" and out == "returned" and where in ("entry", "manifest_path", "manifest_list"):
                        res.violation(f"escaping-path-accepted:tampered-{where}", f"scan returned although {where} names the escaping path {tgt!r}", wit)
                        return
        if len(res.samples) < 1:
            res.sample({"tampered": case["where"], "root": case["root"], "values": targets[:4]})


if __name__ == "__main__":
    raise SystemExit(C17().main())
