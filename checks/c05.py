"""C05 - garbage collection never deletes anything reachable or in flight.

History monitor over table-location spellings: before each collection the
independent reader computes R (every file of every retained snapshot) and the
harness knows F (files written by transactions it holds open); the set of files
that disappeared during the collection must not intersect R | F, every retained
snapshot must still be readable, and planted old orphans must be gone.
"""
from __future__ import annotations

import os
from typing import Any, Dict, List, Optional, Set

from vf import history, reader
from vf.common import CaseResult, Check, Scratch, rng_for
from vf.fakes3 import FakeS3Store, S3Env
from vf.interpose import Interposer

ALPHABET = ["append", "append", "multi", "delete", "delete_append", "readd", "prebuilt", "prebuilt", "expire", "delsnap", "open_tx", "open_tx_sub", "readopt_dead",
            "commit_tx", "rollback_tx", "age", "gc", "gc0", "gc0", "fail_commit", "reopen"]

LOCAL_SPELLINGS = ["abs", "rel", "dotrel", "updown", "trailing", "doubled", "symlink_root", "symlink_parent",
                   "rel_data", "rel_metadata", "rel_d", "rel_m", "rel_dat", "abs_data", "rel_nested_data", "fsroot_data"]
S3_SPELLINGS = [("wh/t", ""), ("/wh/t/", ""), ("data", ""), ("t", "envp/x"), ("metadata", "env"), ("d", "")]


def spell_local(kind: str, d: str) -> str:
    """Returns the table_path string for this spelling (cwd is d)."""
    if kind == "abs":
        return os.path.join(d, "t")
    if kind == "rel":
        return "t"
    if kind == "dotrel":
        return "./t"
    if kind == "updown":
        os.makedirs(os.path.join(d, "a"), exist_ok=True)
        return "a/../t"
    if kind == "trailing":
        return os.path.join(d, "t") + "/"
    if kind == "doubled":
        return d + "//t"
    if kind == "symlink_root":
        os.makedirs(os.path.join(d, "real_t"), exist_ok=True)
        os.symlink(os.path.join(d, "real_t"), os.path.join(d, "t"))
        return os.path.join(d, "t")
    if kind == "symlink_parent":
        os.makedirs(os.path.join(d, "realparent"), exist_ok=True)
        os.symlink(os.path.join(d, "realparent"), os.path.join(d, "lnk"))
        return os.path.join(d, "lnk", "t")
    if kind == "fsroot_data":
        # a table whose absolute location is literally "/data" (first path component of every
        # table-relative data path); only attempted when that directory does not exist yet
        return "/data"
    if kind.startswith("rel_nested_"):
        os.makedirs(os.path.join(d, "x"), exist_ok=True)
        return "x/" + kind[len("rel_nested_"):]
    if kind.startswith("rel_"):
        return kind[4:]
    if kind.startswith("abs_"):
        return os.path.join(d, kind[4:])
    raise ValueError(kind)


class C05(Check):
    pid = "C05"
    level = "exploration"
    rule = ("histories of <=12 ops over {append, multi, delete, delete+append, expire, delete-snapshot, open/commit/"
            "rollback of long transactions, failed commit, ageing, GC with grace 0 / 1 h / 1e9 ms} x 15 local "
            "location spellings (absolute, relative, ./, a/../, trailing slash, doubled slash, symlinked root or "
            "parent, relative names equal to or prefixes of internal directories) + 6 S3 prefix spellings; "
            "non-trivial = a collection that actually deleted at least one planted or real orphan while >=1 "
            "snapshot was retained; distinct by (spelling, grace, #retained, open-tx?)")
    assumptions = [
        "R is computed by the independent reader immediately before each collection; F from the open "
        "transactions' own file lists",
        "orphans are planted as extra files under data/ and metadata/manifests/ with mtimes on both sides of grace",
    ]
    require = {"collections": 100, "orphans_deleted": 30, "collections_with_open_tx": 5}

    def gen_cases(self, tier: str, seed: int):
        reps = 3 if tier == "quick" else 200
        i = 0
        for r in range(reps):
            for sp in LOCAL_SPELLINGS:
                yield {"i": i, "seed": seed, "backend": "local", "spelling": sp}
                i += 1
            for tp, ep in S3_SPELLINGS:
                yield {"i": i, "seed": seed, "backend": "s3", "spelling": tp, "env_prefix": ep}
                i += 1

    def run_case(self, case: Any, res: CaseResult, tier: str) -> None:
        rng = rng_for(case["seed"], "c05", case["i"])
        nops = rng.randint(5, 12)
        ops = history.gen_ops(rng, nops, ALPHABET) + [("age", 7200), ("gc", 0)]
        ip = Interposer().install()
        cwd = os.getcwd()
        try:
            with Scratch("c05") as d:
                d = os.path.realpath(str(d))
                if case["backend"] == "local":
                    os.chdir(d)
                    tp = spell_local(case["spelling"], d)
                    root = os.path.realpath(os.path.join(d, tp))
                    if case["spelling"] == "fsroot_data":
                        import fcntl, shutil
                        lockf = open("/tmp/verif-fsroot-data.lock", "w")
                        fcntl.flock(lockf, fcntl.LOCK_EX)          # one case at a time owns /data
                        try:
                            if os.path.exists("/data"):
                                res.count("fsroot_data_skipped")
                                return
                            try:
                                os.makedirs("/data")
                            except OSError:
                                res.count("fsroot_data_skipped")
                                return
                            try:
                                h = history.History("/data", rng, table_path="/data", ip=ip)
                                self._drive(h, ops, res, case, rng)
                                res.count("fsroot_data_histories")
                            finally:
                                shutil.rmtree("/data", ignore_errors=True)
                        finally:
                            lockf.close()
                        return
                    h = history.History(root, rng, table_path=tp, ip=ip)
                    self._drive(h, ops, res, case, rng)
                else:
                    store = FakeS3Store()
                    with S3Env(store, env_prefix=case["env_prefix"]) as env:
                        h = history.History("", rng, backend="s3", store=store, s3env=env,
                                            table_path=case["spelling"], ip=ip)
                        self._drive(h, ops, res, case, rng)
        finally:
            os.chdir(cwd)
            ip.uninstall()

    # ------------------------------------------------------------------
    def _plant(self, h: history.History, rng: Any, n: int) -> Dict[str, float]:
        """orphans: name -> age seconds"""
        planted: Dict[str, float] = {}
        for k in range(n):
            for rel in (f"data/orphan_{len(h.log)}_{k}.parquet",
                        f"metadata/manifests/orphan_{len(h.log)}_{k}.avro"):
                age = rng.choice([5.0, 7200.0, 2e6])
                if h.backend == "local":
                    p = os.path.join(h.root, rel)
                    os.makedirs(os.path.dirname(p), exist_ok=True)
                    with open(p, "wb") as f:
                        f.write(b"orphan")
                    import time

                    t = time.time() - age
                    os.utime(p, (t, t))
                else:
                    key = "/".join(x for x in (h.s3env.full_prefix(h.table_path), rel) if x)
                    h.store.put_object(Bucket=h.s3env.bucket, Key=key, Body=b"orphan")
                    h.store.set_age(h.s3env.bucket, key, age)
                planted[rel] = age
        return planted

    def _drive(self, h: history.History, ops: List[Any], res: CaseResult, case: Any, rng: Any) -> None:
        for op in ops:
            planted: Dict[str, float] = {}
            R: Set[str] = set()
            F: Set[str] = set()
            before_files: Set[str] = set()
            if op[0] == "gc":
                planted = self._plant(h, rng, rng.randint(1, 2))
                tvb = h.view()
                R = set(tvb.reachable())
                F = h.inflight_files()
                before_files = set(h.blobs().listing())
            out = h.apply(op)
            tv = h.observe(op, out["ok"])
            res.evals += 1
            wit = {"spelling": case["spelling"], "backend": case["backend"], "table_path": h.table_path,
                   "history": h.log[-14:], "op": list(map(str, op)), "outcome": out}
            if tv.meta is None:
                res.violation(f"table-unreadable:{op[0]}", f"table unreadable after {op}: {tv.error}", wit)
                return
            if op[0] != "gc":
                continue
            res.count("collections")
            if F:
                res.count("collections_with_open_tx")
            after_files = set(h.blobs().listing())
            deleted = before_files - after_files
            bad_r = sorted(deleted & R)
            bad_f = sorted(deleted & F)
            wit["deleted"] = sorted(deleted)[:20]
            sclass = self._spelling_class(case)
            if bad_r:
                res.violation(f"gc-deleted-reachable:{sclass}",
                              f"collect({op[1]}) deleted file(s) referenced by a retained snapshot: {bad_r[:3]}", wit)
                return
            if bad_f:
                res.violation(f"gc-deleted-inflight:{sclass}",
                              f"collect({op[1]}) deleted file(s) of an open transaction: {bad_f[:3]}", wit)
                return
            for sv in tv.snapshots:
                if sv.error is not None:
                    res.violation(f"retained-unreadable-after-gc:{sclass}",
                                  f"snapshot {sv.id} unreadable after collect: {sv.error}", wit)
                    return
            # library agrees the current snapshot is intact
            try:
                got = reader.canon_rows(h.table.scan())
            except Exception as e:  # noqa
                res.violation(f"scan-fails-after-gc:{sclass}", f"scan after collect raised {type(e).__name__}: {e}", wit)
                return
            if got != tv.current_rows():
                res.violation(f"scan-differs-after-gc:{sclass}", "library scan differs from independent reader after collect", wit)
                return
            if out["ok"]:
                grace_s = op[1] / 1000.0
                for rel, age in planted.items():
                    if age > grace_s + 1:
                        if rel in after_files:
                            res.violation(f"old-orphan-kept:{sclass}",
                                          f"unreferenced {rel} aged {age}s survived collect(grace={op[1]}ms)", wit)
                            return
                        res.count("orphans_deleted")
                    elif age < grace_s - 1 and rel not in after_files:
                        res.count("young_orphans_deleted")
                ndel = len(deleted)
                if ndel and tv.snapshots:
                    res.key([case["spelling"], op[1], min(len(tv.snapshots), 4), bool(F)])
                if ndel and len(res.samples) < 1:
                    res.sample({"table_path": h.table_path, "backend": case["backend"], "grace_ms": op[1],
                                "reachable_files": len(R), "inflight_files": len(F),
                                "deleted": sorted(deleted)[:6], "retained_snapshots": len(tv.snapshots)})
            else:
                res.count("collections_raised")

    @staticmethod
    def _spelling_class(case: Any) -> str:
        sp = case["spelling"]
        if case["backend"] == "s3":
            return "s3:" + ("internal-name" if sp.strip("/") in ("data", "metadata", "d", "m") else "plain")
        if sp.startswith("rel_") and not sp.startswith("rel_nested"):
            return "relative-internal-prefix-name"
        return sp


if __name__ == "__main__":
    raise SystemExit(C05().main())
