"""C12 - filters mean what SQL says, identically in every scan API.

Differential monitor: real tables are built from generated layouts; every scan
API / option combination is run with generated filters and projections and the
result compared with a Python SQL three-valued evaluator over the rows an
independent reader sees in the parquet files.
"""
from __future__ import annotations

import itertools
import math
from typing import Any, Dict, List, Optional, Tuple

from vf import gen, reader, tables
from vf.common import CaseResult, Check, Scratch, rng_for

API_VARIANTS: List[Tuple[str, Dict[str, Any]]] = []
for vc in (True, False):
    API_VARIANTS += [
        ("scan", {"verify_checksums": vc}),
        ("scan", {"parallel": True, "verify_checksums": vc}),
        ("scan", {"parallel": 2, "verify_checksums": vc}),
        ("scan_batches", {"batch_size": 1, "verify_checksums": vc}),
        ("scan_batches", {"batch_size": 2, "verify_checksums": vc}),
        ("scan_batches", {"batch_size": 3, "verify_checksums": vc}),
        ("scan_batches", {"batch_size": 1000, "verify_checksums": vc}),
        ("iter_records", {"verify_checksums": vc}),
    ]


def call_api(table: Any, api: str, opts: Dict[str, Any], flt: Any, cols: Any) -> List[Dict[str, Any]]:
    if api == "scan":
        return table.scan(columns=cols, filter=flt, **opts)
    if api == "scan_batches":
        out: List[Dict[str, Any]] = []
        for b in table.scan_batches(columns=cols, filter=flt, **opts):
            out.extend(b)
        return out
    if api == "iter_records":
        return list(table.iter_records(columns=cols, filter=flt, **opts))
    raise ValueError(api)


def canon(rows: List[Dict[str, Any]]) -> List[str]:
    return reader.canon_rows(rows)


class C12(Check):
    pid = "C12"
    level = "exploration"
    rule = ("case = one generated table (1-4 typed columns + unique row id, 0-4 files, NULL/NaN knobs) x "
            "generated filters (all operators, aliases, conjunctions of 1-3 columns) x projections x 16 "
            "API/option variants; non-trivial = (table, filter, projection) whose expected result is "
            "neither empty nor the whole table, or that involves NULL/NaN rows; distinct by "
            "(schema types, filter ops, projection kind, match class)")
    assumptions = [
        "ground truth rows come from an independent parquet reader (pyarrow) over the table's data files",
        "to_pandas / iter_pandas are not exercised (pandas absent); they share _scan_table / scan_batches",
        "NaN inside in/not_in value lists and ordering operators on boolean/uuid/binary columns are "
        "only required to raise-or-be-correct consistently (semantics not fixed by the property)",
    ]
    require = {"comparisons": 100, "malformed_checked": 10, "nontrivial_matches": 5}

    def gen_cases(self, tier: str, seed: int):
        n = 160 if tier == "quick" else 2400
        for i in range(n):
            yield {"i": i, "seed": seed}
        # the same differential under non-UTC process time zones (temporal columns are converted at several places)
        for zi, z in enumerate(("JST-9", "EST5EDT,M3.2.0,M11.1.0", "NPT-5:45")):
            for i in range(16 if tier == "quick" else 300):
                yield {"i": 500000 + zi * 10000 + i, "seed": seed, "tz": z, "temporal": True}
        # deterministic NaN / NULL focus on floating columns: every operator x literal x API variant
        for t in ("double", "float"):
            for layout in range(4):
                yield {"nanfocus": t, "layout": layout, "seed": seed}
        # dedicated malformed-filter cases on empty and non-empty tables
        for j, (name, _f) in enumerate(gen.MALFORMED_FILTERS):
            yield {"malformed": name, "seed": seed}
        # history independence: literals that are ==-equal in Python but differ for the engine, in several orders
        for k in range(2 if tier == "quick" else 8):
            yield {"sequence": k, "seed": seed}

    # ------------------------------------------------------------------
    def _sequence(self, case: Any, res: CaseResult) -> None:
        """The outcome of a filter (rows or error) must not depend on the filters the process issued before:
        the same list is run in 4 orders, each in a fresh process, and compared filter by filter."""
        import json
        import os
        import subprocess
        import sys
        from pathlib import Path

        import datashard as ds

        rng = rng_for(case["seed"], "c12seq", case["sequence"])
        fields = [{"id": 1, "name": "rid", "type": "long", "required": True},
                  {"id": 2, "name": "i", "type": "long", "required": False},
                  {"id": 3, "name": "b", "type": "boolean", "required": False},
                  {"id": 4, "name": "f", "type": "double", "required": False},
                  {"id": 5, "name": "s", "type": "string", "required": False}]
        recs = []
        rid = 0
        for i in (0, 1, 2, None):
            for b, f, sv in ((True, 0.0, "1"), (False, -0.0, "0"), (None, 1.0, None)):
                rid += 1
                recs.append({"rid": rid, "i": i, "b": b, "f": f, "s": sv})
        classes = {"i": [1, True, 1.0, 0, False, 0.0, -0.0], "b": [True, 1, 1.0, False, 0], "f": [0.0, -0.0, 0, False, 1, 1.0, True],
                   "s": ["1", 1, True, "0", 0]}
        items: List[List[Any]] = []
        for col, lits in classes.items():
            for lit in lits:
                for op in ("plain", "==", "!=", "<", ">="):
                    items.append([len(items), col, op, lit])
                items.append([len(items), col, "in", [lit]])
                items.append([len(items), col, "in", [lit, 2 if col != "s" else "2"]])
                items.append([len(items), col, "not_in", [lit]])
        with Scratch("c12q") as d:
            root = str(d / "t")
            t = ds.create_table(root, schema=tables.schema_of(fields))
            t.append_records(recs[:6])
            t.append_records(recs[6:])
            orders = [list(items), list(reversed(items))]
            for _ in range(2):
                o = list(items)
                rng.shuffle(o)
                orders.append(o)
            outs = []
            for k, order in enumerate(orders):
                spec = str(d / f"order{k}.json")
                json.dump(order, open(spec, "w"))
                try:
                    p = subprocess.run([sys.executable, "-m", "vf.procs.filterseq", root, spec], cwd=str(Path(__file__).resolve().parents[1]),
                                       env=dict(os.environ, PYTHONHASHSEED="0"), capture_output=True, timeout=300)
                except subprocess.TimeoutExpired:
                    res.inconclusive.append("filter sequence child: watchdog fired")
                    return
                if p.returncode != 0 or not p.stdout:
                    res.inconclusive.append(f"filter sequence child failed: {p.stderr.decode(errors='replace')[-300:]}")
                    return
                outs.append(json.loads(p.stdout.decode()))
            for idx, col, op, val in items:
                res.evals += 1
                res.count("sequence_filters_compared")
                got = [o[str(idx)] for o in outs]
                if any(g != got[0] for g in got[1:]):
                    k = next(j for j, g in enumerate(got) if g != got[0])
                    pos = next(n for n, it in enumerate(orders[k]) if it[0] == idx)
                    res.violation(f"filter-outcome-depends-on-history:{op}:{col}",
                                  f"filter {{{col!r}: ({op!r}, {val!r})}} gives {got[0]} when the list is run forwards and "
                                  f"{got[k]} in order #{k} (there preceded by {[it[1:] for it in orders[k][max(0, pos - 3):pos]]})",
                                  {"case": case, "filter": [col, op, repr(val)], "outcomes": got})
                    return
                if got[0]["scan"][0] == "raise":
                    res.count("sequence_filters_raising")
                res.key(["seq", col, op, repr(val), got[0]["scan"][0]])

    def run_case(self, case: Any, res: CaseResult, tier: str) -> None:
        import datashard as ds

        if "malformed" in case:
            return self._malformed(case, res)
        if "nanfocus" in case:
            return self._nanfocus(case, res)
        if "sequence" in case:
            return self._sequence(case, res)
        rng = rng_for(case["seed"], "c12", case["i"])
        fields = gen.gen_schema(rng, types=["timestamp", "date", "time", "timestamp", "long"]) if case.get("temporal") \
            else gen.gen_schema(rng)
        layout = gen.gen_layout(rng, fields, nan_p=rng.choice([0.0, 0.15, 0.4]),
                                null_p=rng.choice([0.0, 0.2, 0.5]))
        with Scratch("c12") as d:
            root = str(d / "t")
            t = ds.create_table(root, schema=tables.schema_of(fields))
            for recs in layout:
                t.append_records(recs)
            # sometimes spread rows of the last append over one multi-file transaction
            tv = reader.read_table(reader.Blobs.local(root))
            cur = tv.current()
            truth: List[Dict[str, Any]] = []
            if cur is not None:
                for fp in cur.files:
                    truth.extend(reader.read_rows(reader.Blobs.local(root), fp))
            res.count("tables")
            res.count("files", len(layout))
            res.count("rows", len(truth))
            data_fields = [f for f in fields if f["name"] != "rid"]
            nfilters = 6 if tier == "quick" else 10
            for fi in range(nfilters):
                nterms = rng.choice([1, 1, 1, 2, 3])
                chosen = rng.sample(data_fields, min(nterms, len(data_fields)))
                flt: Dict[str, Any] = {}
                terms = []
                klass = "plain"
                for f in chosen:
                    present = [r[f["name"]] for r in truth]
                    op, cond, k = gen.gen_filter_term(rng, f, present)
                    flt[f["name"]] = cond
                    terms.append((f["name"], op, cond))
                    if k != "plain":
                        klass = k
                proj_kind = rng.choice(["none", "with", "without", "reordered", "single_rid"])
                names = [f["name"] for f in fields]
                if proj_kind == "none":
                    cols = None
                elif proj_kind == "with":
                    cols = ["rid"] + [c for c, _o, _c in terms]
                elif proj_kind == "without":
                    cols = [n for n in names if n not in flt] or ["rid"]
                elif proj_kind == "reordered":
                    cols = list(reversed(names))
                else:
                    cols = ["rid"]
                self._one_filter(t, truth, flt, terms, cols, klass, proj_kind, fields, res, case)

    def _nanfocus(self, case: Any, res: CaseResult) -> None:
        import datashard as ds

        nan = float("nan")
        t_name = case["nanfocus"]
        fields = [{"id": 1, "name": "rid", "type": "long", "required": True},
                  {"id": 2, "name": "x", "type": t_name, "required": False}]
        layouts = [
            [[1.0, nan, None]],
            [[1.0, nan], [nan], [2.0, 1.0], [None]],
            [[1.0, 1.0, nan], [2.0]],
            [[nan, nan], [1.0], [None, 2.0, nan]],
        ]
        files = layouts[case["layout"]]
        with Scratch("c12n") as d:
            root = str(d / "t")
            t = ds.create_table(root, schema=tables.schema_of(fields))
            rid = 0
            for vals in files:
                recs = []
                for v in vals:
                    recs.append({"rid": rid, "x": v})
                    rid += 1
                t.append_records(recs)
            tv = reader.read_table(reader.Blobs.local(root))
            truth: List[Dict[str, Any]] = []
            for fp in tv.current().files:
                truth.extend(reader.read_rows(reader.Blobs.local(root), fp))
            lits = [1.0, 2.0, 0.0]
            conds: List[Tuple[str, Any]] = []
            for op in gen.CMP_OPS:
                for l in lits:
                    conds.append((op, (op, l)))
            for vs in ([1.0], [1.0, 2.0], [0.0], [], [1.0, None]):
                conds.append(("in", ("in", vs)))
                conds.append(("not_in", ("not_in", vs)))
            conds.append(("between", ("between", (1.0, 2.0))))
            conds.append(("is_null", ("is_null", True)))
            conds.append(("is_not_null", ("is_not_null", True)))
            for op, cond in conds:
                self._one_filter(t, truth, {"x": cond}, [("x", op, cond)], None, "plain", "none", fields, res, case)
            res.count("tables")

    def _expected(self, truth: List[Dict[str, Any]], terms: Any, cols: Any) -> Optional[List[Dict[str, Any]]]:
        out = []
        for r in truth:
            ok = True
            for col, op, cond in terms:
                try:
                    if not gen.eval_term(op, cond, r[col]):
                        ok = False
                        break
                except TypeError:
                    return None  # evaluator cannot order these values
            if ok:
                out.append(r if cols is None else {c: r[c] for c in cols})
        return out

    def _one_filter(self, t: Any, truth: Any, flt: Any, terms: Any, cols: Any, klass: str,
                    proj_kind: str, fields: Any, res: CaseResult, case: Any) -> None:
        exp = self._expected(truth, terms, cols)
        outcomes = []
        for api, opts in API_VARIANTS:
            try:
                got = canon(call_api(t, api, opts, flt, cols))
                outcomes.append((api, opts, "ok", got))
            except Exception as e:  # noqa
                outcomes.append((api, opts, "raise", f"{type(e).__name__}: {str(e)[:120]}"))
            res.count("comparisons")
        res.evals += 1
        kinds = {o[2] for o in outcomes}
        ops = sorted(op for _c, op, _cond in terms)
        types = sorted(f["type"] for f in fields if f["name"] in flt)
        wit = {"fields": fields, "filter": repr(flt), "columns": cols, "nrows": len(truth),
               "outcomes": [(a, o, k, (g if k == "raise" else len(g))) for a, o, k, g in outcomes][:16]}
        if kinds == {"raise"}:
            if klass == "plain" and exp is not None:
                res.violation(f"wellformed-filter-raises:{'+'.join(ops)}:{'+'.join(types)}",
                              f"well-formed filter {flt!r} raises in every API: {outcomes[0][3]}", wit)
            else:
                res.count("engine_unsupported_consistent")
            return
        if len(kinds) > 1:
            res.violation(f"api-disagree-raise:{'+'.join(ops)}",
                          f"some APIs raise and others return for filter {flt!r}", wit)
            return
        results = {tuple(o[3]) for o in outcomes}
        if len(results) > 1:
            res.violation(f"api-disagree-rows:{'+'.join(ops)}:{'+'.join(types)}",
                          f"scan APIs return different multisets for filter {flt!r} columns={cols}", wit)
            return
        if exp is None or klass != "plain":
            # ordering on a type the engine may not order, or a literal of another comparable Python
            # type (datetime vs date, int vs float): semantics are the engine's; only cross-API
            # agreement (above) and pruned == unpruned (C13) are demanded
            res.count("evaluator_na")
            return
        got = outcomes[0][3]
        if got != canon(exp):
            wit["expected"] = canon(exp)[:20]
            wit["got"] = got[:20]
            has_nan = any(isinstance(r[c], float) and math.isnan(r[c]) for r in truth for c in flt)
            res.violation(f"wrong-rows:{'+'.join(ops)}:{'+'.join(types)}:{'nan' if has_nan else 'nonan'}",
                          f"filter {flt!r} returned {len(got)} rows, SQL-3VL evaluator says {len(exp)}", wit)
            return
        nontriv = 0 < len(exp) < len(truth) or any(r[c] is None for r in truth for c in flt)
        if nontriv:
            res.count("nontrivial_matches")
            res.key(["f", types, ops, proj_kind, "some" if 0 < len(exp) < len(truth) else "edge"])
        if len(res.samples) < 2 and nontriv:
            res.sample({"schema": [(f["name"], f["type"]) for f in fields], "filter": repr(flt),
                        "columns": cols, "rows_in_table": len(truth), "rows_matching": len(exp),
                        "api_variants_agreeing": len(outcomes)})

    # ------------------------------------------------------------------
    def _malformed(self, case: Any, res: CaseResult) -> None:
        import datashard as ds

        name = case["malformed"]
        mk = dict(gen.MALFORMED_FILTERS)[name]
        for state in ("empty", "nonempty", "nonempty_multi"):
            with Scratch("c12m") as d:
                t = ds.create_table(str(d / "t"), schema=tables.std_schema())
                if state != "empty":
                    t.append_records(tables.rows([1, 2, 3]))
                if state == "nonempty_multi":
                    t.append_records(tables.rows([4]))
                for col in ("id", "v"):
                    flt = mk(col)
                    outs = []
                    for api, opts in API_VARIANTS:
                        try:
                            got = call_api(t, api, opts, mk(col), None)     # a fresh filter object per call
                            outs.append((api, opts, "returned", len(got)))
                        except Exception as e:  # noqa
                            outs.append((api, opts, "raise", type(e).__name__))
                        res.count("malformed_checked")
                    res.evals += 1
                    bad = [o for o in outs if o[2] != "raise"]
                    res.key(["m", name, state, col])
                    if bad:
                        apis = sorted({o[0] for o in bad})
                        res.violation(f"malformed-accepted:{name}:{state}:{'+'.join(apis)}",
                                      f"malformed filter {flt!r} on {state} table did not raise in {apis}",
                                      {"filter": repr(flt), "state": state, "outcomes": outs})
                    elif len(res.samples) < 3:
                        res.sample({"malformed_filter": repr(flt), "table": state,
                                    "all_16_variants_raised": True})


if __name__ == "__main__":
    raise SystemExit(C12().main())
