"""C08 - a stale lock holder or delayed pointer write cannot lose an update on S3.

Committers run over the in-memory S3 double with a scheduler gate before the effect
of every request (a parked PUT *is* a delayed in-flight PUT).  Environment actors
advance the virtual clock past the lock lease (enabling takeover) and drive the
holders' heartbeat renewals.  Lock providers: the real conditional-write lock, and a
stub that grants everybody (the property's "even if the lock gives no exclusion").

Oracles: (1) per-flip delta model of C01; (2) the statement itself - at every
successful conditional PUT of the pointer, the content it replaced must name the
metadata version that actor fetched for validation; (3) fence truth - an attempt whose
lock-ownership read showed another owner must not flip the pointer.
"""
from __future__ import annotations

from typing import Any, Dict, List, Optional, Sequence, Tuple

from vf import reader, tables
from vf.common import CaseResult, Check, Scratch, rng_for
from vf.interpose import Interposer
from vf.scenario import HINT, ClientLog, FlipLog, Template, s3_weather
from vf.sched import PCT, RandomWalk, Scheduler, SchedEnv, Scripted, adopt, explore_bounded

from checks.c01 import FlipChecker, build_seed

LOCK_KEY_SUFFIX = ".locks/metadata.lock"


class GrantAll:
    """A lock that gives no exclusion at all."""

    def acquire(self) -> bool:
        return True

    def release(self) -> None:
        pass

    def is_held(self) -> bool:
        return True


class Exec:
    def __init__(self, case: Dict[str, Any], tmpl: Template, ip: Interposer):
        self.case = case
        self.tmpl = tmpl
        self.ip = ip

    def run(self, strategy: Any, seed: int = 0) -> Dict[str, Any]:
        import datashard as ds

        case = self.case
        inst = self.tmpl.clone()
        with inst:
            store = inst.store
            store.keep_log = False
            blobs = inst.blobs()
            tv0 = reader.read_table(blobs, rows=False)
            seeds = sorted(tv0.snapshots, key=lambda s: s.seq)
            seed_files = [s.files[-1] for s in seeds]
            sched = Scheduler(strategy, clock=store.clock, seed=seed, max_steps=4000)
            flips = FlipLog(sched)
            clog = ClientLog(sched)
            handles: Dict[str, Any] = {}
            st: Dict[str, Dict[str, Any]] = {}
            viol: List[Tuple[str, str]] = []
            hint_key = inst.table_path.strip("/") + "/" + HINT
            lock_key = inst.table_path.strip("/") + "/" + LOCK_KEY_SUFFIX

            for i, kind in enumerate(case["ops"]):
                name = "AB C"[i] if i < 2 else "C"
                t = ds.load_table(inst.table_path)
                if case["lock"] == "grant_all":
                    t.metadata_manager.lock_provider = GrantAll()
                handles[name] = t
                st[name] = {"last_meta": None, "fenced": False, "pending_x": None}
                base = 1000 * (i + 1)
                if kind == "append":
                    ids = [base + 1, base + 2]
                    fn = (lambda t=t, ids=ids: t.append_records(tables.rows(ids)))
                    info: Dict[str, Any] = {"ids": ids}
                elif kind == "delsnap":
                    sid = seeds[(i + 1) % 2].id
                    fn = (lambda t=t, sid=sid: t.snapshot_manager.delete_snapshot(sid))
                    info = {"sid": sid}
                else:  # delete
                    victim = seed_files[i % 2]

                    def fn(t: Any = t, victim: str = victim) -> Any:
                        with t.new_transaction() as tx:
                            tx.delete_files(["/" + victim])
                            return tx.commit()
                    info = {"victim": victim}
                sched.spawn(name, clog.wrap(name, kind, fn, **info))

            lease = 60.0
            for j in range(case.get("clock_steps", 1)):
                pass

            def clock_actor() -> None:
                for _ in range(case.get("clock_steps", 1)):
                    sched.gate("env:clock+lease")
                    if case.get("aging") == "object":
                        # only the lock OBJECT grows old (the contenders' wall clocks run ahead of the holder's
                        # monotonic clock: suspend/resume, clock skew): the holder's own clock shows no lapse
                        if ("bkt", lock_key) in store.objects:
                            store.set_age("bkt", lock_key, lease + 5.0)
                    else:
                        store.clock.advance(lease + 5.0)
                    sched.count("lease_expiries")

            def hb_actor() -> None:
                for _ in range(case.get("hb_steps", 0)):
                    sched.gate("env:heartbeat")
                    for t in handles.values():
                        lp = t.metadata_manager.lock_provider
                        if getattr(lp, "is_locked", False):
                            sched.count("heartbeats")
                            lp._renew_once()

            def thief_actor() -> None:
                # takes the lock over (once its lease has lapsed) and just keeps it: the committer has then lost
                # its lock while nobody else moves the pointer - only the fence can stop it
                t = ds.load_table(inst.table_path)
                lp = t.metadata_manager.lock_provider
                try:
                    lp.acquire()
                except Exception:
                    return
                sched.count("thief_acquired")
                if case.get("thief") == "release":
                    # ... and lets go at once without moving the pointer (a failed validation, a refused
                    # initialise): the lock object is GONE when the committer reaches its fence
                    lp.release()
                    sched.count("thief_released_early")
                    return
                # ownership bookkeeping uses the actor name of the writer; nothing else to do while holding
                sched.gate("thief:holding", pred=lambda: all(a.state == "done" for a in sched.actors
                                                             if a.name in st))
                lp.release()

            if case.get("thief"):
                sched.spawn("thief", thief_actor, daemonic=True)
            if case.get("clock_steps", 1):
                sched.spawn("clock", clock_actor, daemonic=True)
            if case.get("hb_steps", 0):
                sched.spawn("hb", hb_actor, daemonic=True)

            # -- request-level monitors (installed AFTER the gate hook so they see the state at effect time)
            def before(req: Any) -> None:
                me = sched.me()
                if me is None or me.name not in st:
                    return
                s = st[me.name]
                if req.op == "PUT" and req.key == hint_key:
                    cur = store.objects.get((req.bucket, req.key))
                    s["pending_x"] = cur.body.decode("utf-8", "replace").strip() if cur is not None else None

            lockstate = {"owner": None, "lost_at": {}}      # who wrote the lock object last; when each actor lost it

            def after(req: Any) -> None:
                me = sched.me()
                if me is not None and me.name == "thief" and req.key == lock_key and req.op == "PUT" and req.effect == "written":
                    prev = lockstate["owner"]
                    if prev is not None and prev != "thief":
                        lockstate["lost_at"][prev] = sched.nstep
                    lockstate["owner"] = "thief"
                    return
                if me is None or me.name not in st:
                    return
                s = st[me.name]
                # ownership by WRITER of the lock object (not by its content: two providers may share a token)
                if req.key == lock_key and req.op == "PUT" and req.effect == "written":
                    prev = lockstate["owner"]
                    if prev is not None and prev != me.name:
                        lockstate["lost_at"][prev] = sched.nstep
                    lockstate["owner"] = me.name
                    lockstate["lost_at"].pop(me.name, None)
                elif req.key == lock_key and req.op == "DELETE" and req.effect == "deleted":
                    prev = lockstate["owner"]
                    if prev is not None and prev != me.name:
                        lockstate["lost_at"][prev] = sched.nstep
                    lockstate["owner"] = None
                if req.op != "PUT" or req.key != hint_key:
                    s["last_req_step"] = sched.nstep
                elif req.effect == "written" and case["lock"] == "real":
                    lost = lockstate["lost_at"].get(me.name)
                    if lost is not None and lost < s.get("last_req_step", 0):
                        viol.append(("acked-after-losing-lock-before-commit-point",
                                     f"{me.name} flipped the pointer at step {sched.nstep} although its lock was taken over at step "
                                     f"{lost}, before its last pre-commit request (step {s.get('last_req_step')})"))
                if req.op == "GET" and req.key.endswith(".metadata.json") and "/metadata/v" in req.key:
                    s["last_meta"] = req.key.rsplit("/", 1)[-1]
                elif req.op == "GET" and req.key == lock_key and req.effect == "read":
                    lp = handles[me.name].metadata_manager.lock_provider
                    body = store.objects.get((req.bucket, req.key))
                    content = body.body.decode().split(":", 1)[0] if body is not None else None
                    if content != getattr(lp, "lock_id", None):
                        s["fenced"] = True
                        sched.count("fence_saw_other_owner")
                elif req.op == "PUT" and req.key == lock_key and req.effect == "written":
                    s["fenced"] = False
                elif req.op == "PUT" and req.key == hint_key and req.effect == "written":
                    sched.count("pointer_cas_success")
                    x = s["pending_x"]
                    if x != s["last_meta"]:
                        viol.append(("replaced-pointer-not-validated-version",
                                     f"{me.name} replaced pointer content {x!r} but validated against {s['last_meta']!r}"))
                    if s["fenced"]:
                        viol.append(("flip-after-lost-lock",
                                     f"{me.name} flipped the pointer although its ownership read showed another owner"))

            def cas_fail(req: Any) -> None:
                pass

            adopt(sched, *handles.values())
            store.after.append(flips.s3_after)
            s3_weather(case.get("weather"), store, sched)
            store.after.append(after)
            checker = FlipChecker(blobs, tv0, clog, flips, seeds)
            sched.monitors.append(checker.on_step)
            with SchedEnv(sched, self.ip, store):
                store.before.append(before)      # after SchedEnv's gate hook
                outcome = sched.run()
            final = reader.read_table(blobs, rows=False)
            checker._fill_rows(final)
            checker.finish(final, outcome, sched)
            contention = sum(sched.counters.get(k, 0) for k in ("virtual_sleeps", "rlock_waits"))
            return {"outcome": outcome, "viol": viol + checker.viol, "trace_key": sched.trace_key(),
                    "steps": sched.nstep, "events": clog.events, "flip_log": list(flips.flips),
                    "trace": sched.trace, "counters": dict(sched.counters), "contention": contention}


class C08(Check):
    pid = "C08"
    level = "exploration"
    rule = ("2 committers (append x append, append x delete_snapshot, delete x append) on the CAS-S3 double, gates before "
            "every S3 request, + a clock actor that advances virtual time past the lock lease and (some cells) a heartbeat "
            "actor driving the real _renew_once(); lock = real S3LockProvider | grant-everyone stub. ALL schedules with "
            "<=k preemptions (k=1 every cell, k=2 for the key cells in quick; k=2 everywhere, k=3 key cells in thorough); "
            "3 committers under PCT/random. non-trivial = execution with a CAS conflict, a lock wait/retry, a takeover or "
            "a fenced attempt; distinct = request-level trace")
    assumptions = [
        "S3 double: strongly consistent, conditional PUT (If-Match / If-None-Match), LastModified on the virtual clock",
        "lease expiry happens only through the explicit clock actor (never by wall time)",
    ]
    require = {"executions_ok": 200, "pointer_cas_success": 200, "contended_executions": 30, "lease_expiries": 50,
               "thief_acquired": 20, "fence_saw_other_owner": 10}
    worker_timeout_s = {"quick": 1500, "thorough": 7200}

    def gen_cases(self, tier: str, seed: int):
        pairs = [["append", "append"], ["append", "delsnap"], ["delete", "append"]]
        cells = []
        for ops in pairs:
            for lock in ("real", "grant_all"):
                cells.append({"ops": ops, "lock": lock, "clock_steps": 1, "hb_steps": 0})
            if tier != "quick" or ops == pairs[0]:
                cells.append({"ops": ops, "lock": "real", "clock_steps": 1, "hb_steps": 1})
        k_main = 1 if tier == "quick" else 2
        for c in cells:
            nsh = (8 if c["hb_steps"] else 2) if k_main == 1 else 16
            for sh in range(nsh):
                yield dict(c, mode="dfs", k=k_main, shard=sh, nshards=nsh, max_runs=100000 if tier == "quick" else 2500)
        # object-store weather on A's first pointer PUT, where the lock does not exclude the other committer
        for w in ("503_before", "lost_response", "applied_412"):
            for ops in pairs[:2] if tier == "quick" else pairs:
                nsh = 2 if k_main == 1 else 8
                for sh in range(nsh):
                    yield {"mode": "dfs", "ops": ops, "lock": "grant_all", "clock_steps": 0, "hb_steps": 0, "weather": w,
                           "k": k_main, "shard": sh, "nshards": nsh, "max_runs": 100000 if tier == "quick" else 2500}
        for z in ("JST-9", "EST5"):       # non-UTC process zones: lease age = local clock vs the store's UTC LastModified
            for sh in range(2):
                yield {"mode": "dfs", "ops": ["append", "append"], "lock": "real", "clock_steps": 1, "hb_steps": 0,
                       "k": 1, "shard": sh, "nshards": 2, "tz": z}
        # one committer + a thief that takes the lock over and keeps it + the clock: all <=1-preemption schedules
        for ops in (["append"], ["delsnap"]):
            for sh in range(4):
                yield {"mode": "dfs", "ops": ops, "lock": "real", "clock_steps": 1, "hb_steps": 0, "thief": True, "aging": "object",
                       "k": 1 if tier == "quick" else 2, "shard": sh, "nshards": 4}
        for ops in (["append"], ["delsnap"], ["delete"]):
            for thief in (True, "release"):
                for sh in range(4):
                    yield {"mode": "dfs", "ops": ops, "lock": "real", "clock_steps": 1, "hb_steps": 0, "thief": thief,
                           "k": 1 if tier == "quick" else 2, "shard": sh, "nshards": 4}
        key = [{"ops": ["append", "append"], "lock": "real", "clock_steps": 1, "hb_steps": 0},
               {"ops": ["append", "append"], "lock": "grant_all", "clock_steps": 0, "hb_steps": 0}]
        for ci, c in enumerate(key):
            if tier == "quick" and ci == 0:
                continue        # the 3-actor real-lock cell at k=2 is thorough-only (the thief cells cover lock loss at k=1)
            kk = 2 if tier == "quick" else 3
            nsh = 16 if tier == "quick" else 64
            for sh in range(nsh):
                # quick: the real-lock cell (clock actor = 3 actors) is budgeted per shard; the
                # grant-all cell is enumerated completely
                mr = (250 if ci == 0 else 100000) if tier == "quick" else 1500
                yield dict(c, mode="dfs", k=kk, shard=sh, nshards=nsh, max_runs=mr)
        nrand = 32 if tier == "quick" else 500
        for i in range(nrand):
            rng = rng_for(seed, "c08r", i)
            yield {"mode": rng.choice(["pct", "random"]),
                   "ops": [rng.choice(["append", "delsnap", "delete"]) for _ in range(3)],
                   "lock": rng.choice(["real", "real", "grant_all"]), "clock_steps": rng.choice([1, 2]),
                   "hb_steps": rng.choice([0, 1, 2]), "seed": seed * 100000 + i, "runs": 6 if tier == "quick" else 12,
                   "weather": rng.choice([None, None, "503_before", "lost_response", "applied_412"]),
                   "tz": rng.choice([None, None, "JST-9", "EST5"])}

    def run_case(self, case: Any, res: CaseResult, tier: str) -> None:
        ip = Interposer().install()
        try:
            with Scratch("c08") as d:
                tmpl = Template("s3", str(d))
                tmpl.build(build_seed)
                ex = Exec(case, tmpl, ip)
                if case.get("_replay_schedule") is not None and case["mode"] == "dfs":
                    dev = [tuple(x) for x in case["_replay_schedule"]]
                    strat = Scripted(dev)
                    self._record(case, dev, ex.run(strat), res)
                elif case["mode"] == "dfs":
                    def run_once(dev: Sequence[Tuple[int, str, int]]) -> Tuple[Scripted, Any]:
                        strat = Scripted(dev)
                        return strat, ex.run(strat)

                    st = explore_bounded(run_once, case["k"], (case["shard"], case["nshards"]),
                                         max_runs=case.get("max_runs", 100000),
                                         on_result=lambda dev, r: self._record(case, dev, r, res))
                    res.count("dfs_truncated", st["truncated"])
                else:
                    for j in range(case["runs"]):
                        s = f"{case['seed']}:{j}"
                        strat = PCT(s, depth=3, est_steps=200) if case["mode"] == "pct" else RandomWalk(s, stay=0.7)
                        self._record(case, [("strategy", case["mode"], s)], ex.run(strat, seed=j), res)
        finally:
            ip.uninstall()

    def _record(self, case: Any, dev: Any, r: Dict[str, Any], res: CaseResult) -> None:
        res.evals += 1
        wit = {"case": case, "schedule": [list(x) for x in dev], "events": r["events"], "flips": r["flip_log"],
               "trace": [f"{a}:{l}" for a, l in r["trace"]][-220:], "counters": r["counters"]}
        if r["outcome"] != "ok":
            res.violation(f"no-progress:{r['outcome']}:{case['lock']}", f"scheduler outcome {r['outcome']} after {r['steps']} steps", wit)
            return
        res.count("executions_ok")
        for k in ("pointer_cas_success", "lease_expiries", "heartbeats", "fence_saw_other_owner", "thief_acquired"):
            res.count(k, r["counters"].get(k, 0))
        for e in r["events"]:
            if e["outcome"] == "raised":
                res.count(f"raised_{e.get('exc_type')}")
        nontriv = r["contention"] or r["counters"].get("fence_saw_other_owner")
        if nontriv:
            res.count("contended_executions")
            res.key(r["trace_key"])
        for sig, msg in r["viol"][:3]:
            res.violation(f"{sig}:{case['lock']}-lock", msg, wit)
        if not r["viol"] and nontriv and len(res.samples) < 2:
            res.sample({"ops": case["ops"], "lock": case["lock"], "schedule_deviations": [list(x) for x in dev],
                        "pointer_flips": r["flip_log"], "counters": r["counters"],
                        "request_trace_tail": wit["trace"][-25:]})


if __name__ == "__main__":
    raise SystemExit(C08().main())
