"""C11 - accepted appends are exact; rejected ones leave no trace; scans keep working.

Input-space monitor with pre/post contracts around every append:
  raise  => independent reader sees the same snapshot list, reachable files and rows;
  accept => next full scan == model + new rows (value-exact up to the declared type's
            representation), and every column still filters correctly on fresh and reused handles.
"""
from __future__ import annotations

import datetime as dt
import decimal
import fractions
import math
import os
import struct
import uuid as uuidlib
from typing import Any, Dict, List, Optional, Tuple

from vf import gen, reader, tables
from vf.common import CaseResult, Check, Scratch, rng_for

NAN = float("nan")
SKIP = object()


def f32(x: float) -> Optional[float]:
    if math.isnan(x) or math.isinf(x):
        return x
    try:
        r = struct.unpack("f", struct.pack("f", x))[0]
    except OverflowError:
        return None  # not representable as a finite float32
    if math.isinf(r):
        return None  # a finite value that only fits as +-inf is not representable either
    return r


def values_for(t: str) -> List[Tuple[str, Any]]:
    """(class name, value) incl. values the type cannot represent."""
    if t == "boolean":
        return [("true", True), ("false", False), ("int1", 1), ("int0", 0), ("int2", 2), ("str", "true")]
    if t == "int":
        return [("zero", 0), ("neg", -1), ("max", 2**31 - 1), ("min", -2**31), ("over", 2**31), ("under", -2**31 - 1),
                ("frac", 1.5), ("negfrac", -0.5), ("integral_float", 2.0), ("nan", NAN), ("inf", float("inf")),
                ("str", "7"), ("bool", True), ("huge", 2**63), ("decimal_frac", decimal.Decimal("1.5")),
                ("fraction", fractions.Fraction(3, 2))]
    if t == "long":
        return [("zero", 0), ("big", 2**53 + 1), ("max", 2**63 - 1), ("min", -2**63), ("over", 2**63),
                ("under", -2**63 - 1), ("frac", 1.5), ("bigfloat", 1e19), ("integral_float", 2.0), ("nan", NAN),
                ("str", "7"), ("decimal_frac", decimal.Decimal("1.5")), ("fraction", fractions.Fraction(3, 2)),
                ("decimal_integral", decimal.Decimal("7")),
                ("decimal_frac_beyond_float", decimal.Decimal("12345678901234567.5")),
                ("decimal_frac_tiny", decimal.Decimal("1.00000000000000000001")),
                ("fraction_frac_tiny", fractions.Fraction(10**20 + 1, 10**20))]
    if t == "float":
        return [("half", 0.5), ("tenth", 0.1), ("int_exact", 16777216), ("int_inexact", 16777217),
                ("float_inexact", 16777217.0), ("overflow", 1e39), ("nan", NAN), ("inf", float("inf")),
                ("negzero", -0.0), ("str", "1.0"), ("bool", True), ("overflow_big", 1e300), ("just_over", 3.5e38)]
    if t == "double":
        return [("tenth", 0.1), ("int_exact", 2**53), ("int_inexact", 2**53 + 1), ("large", 1e308), ("nan", NAN),
                ("inf", float("inf")), ("neginf", float("-inf")), ("str", "x"), ("negzero", -0.0)]
    if t == "date":
        return [("leap", dt.date(2024, 2, 29)), ("min", dt.date(1, 1, 1)), ("max", dt.date(9999, 12, 31)),
                ("datetime", dt.datetime(2024, 1, 1, 12, 30)), ("str", "2024-01-01"), ("int", 19000)]
    if t == "time":
        return [("midnight", dt.time(0, 0)), ("max", dt.time(23, 59, 59, 999999)), ("str", "12:00"), ("int", 3600)]
    if t == "timestamp":
        return [("micro", dt.datetime(2024, 2, 29, 12, 0, 0, 1)), ("epoch", dt.datetime(1970, 1, 1)),
                ("min", dt.datetime(1, 1, 1)), ("max", dt.datetime(9999, 12, 31, 23, 59, 59, 999999)),
                ("str", "2024-01-01T00:00:00"), ("int", 0)]
    if t == "string":
        return [("empty", ""), ("ascii", "a"), ("latin", "é"), ("astral", "\U0001F600"), ("nul", "a\x00b"),
                ("surrogate", "\ud800"), ("int", 5), ("bytes", b"ab")]
    if t == "uuid":
        return [("uuid", "123e4567-e89b-12d3-a456-426614174000"), ("free", "not-a-uuid"),
                ("obj", uuidlib.UUID("123e4567-e89b-12d3-a456-426614174000"))]
    if t == "binary":
        return [("empty", b""), ("bytes", b"\x00\xff"), ("str", "str"), ("bytearray", bytearray(b"ab")), ("int", 5)]
    raise ValueError(t)


def same(t: str, v: Any, stored: Any) -> Any:
    """True / False / SKIP: is `stored` the supplied value up to the type's representation?"""
    if v is None:
        return stored is None
    if stored is None:
        return False
    if isinstance(v, float) and math.isnan(v):
        return isinstance(stored, float) and math.isnan(stored)
    if t in ("int", "long"):
        return isinstance(stored, int) and not isinstance(v, str) and v == stored
    if t == "float":
        if isinstance(v, str):
            return False
        if isinstance(v, float):
            r = f32(v)
            return r is not None and stored == r and math.copysign(1, stored) == math.copysign(1, r)
        return v == stored          # ints / bools must be exact
    if t == "double":
        if isinstance(v, str):
            return False
        return v == stored and (not isinstance(v, float) or math.copysign(1, stored) == math.copysign(1, v))
    if t == "boolean":
        return isinstance(stored, bool) and not isinstance(v, str) and v == stored
    if t in ("string", "uuid"):
        if not isinstance(v, str):
            return SKIP               # bytes/int/UUID coerced to text: representation question, not judged
        return stored == v
    if t == "binary":
        if not isinstance(v, (bytes, bytearray)):
            return SKIP
        return stored == bytes(v)
    if t == "date":
        if isinstance(v, int) and not isinstance(v, bool):
            return SKIP               # raw day count: not judged
        return type(v) is dt.date and stored == v
    if t == "time":
        if isinstance(v, int) and not isinstance(v, bool):
            return SKIP               # raw microsecond count: a representation question, not judged
        return isinstance(v, dt.time) and stored == v
    if t == "timestamp":
        if isinstance(v, int) and not isinstance(v, bool):
            return SKIP               # raw epoch microseconds: not judged
        return isinstance(v, dt.datetime) and stored == v
    return SKIP


BASE_FIELDS = [
    {"id": 1, "name": "rid", "type": "long", "required": True},
    {"id": 2, "name": "a", "type": "long", "required": False},
    {"id": 3, "name": "b", "type": "long", "required": False},
    {"id": 4, "name": "s", "type": "string", "required": False},
    {"id": 5, "name": "d", "type": "double", "required": False},
]


def schema_variant(name: str) -> Optional[List[Dict[str, Any]]]:
    F = [dict(f) for f in BASE_FIELDS]
    if name == "omitted":
        return None
    if name == "identical":
        return F
    if name == "reordered":
        return [F[0], F[3], F[2], F[1], F[4]]
    if name == "reordered_same_type":
        return [F[0], F[2], F[1], F[3], F[4]]
    if name == "renumbered":
        F[1]["id"], F[2]["id"] = 3, 2
        return F
    if name == "renumbered_fresh":
        for i, f in enumerate(F):
            f["id"] = 10 + i
        return F
    if name == "other_types":
        F[1]["type"] = "string"
        return F
    if name == "other_types_narrow":
        F[1]["type"] = "int"
        return F
    if name == "flipped_nullability":
        F[1]["required"] = True
        return F
    if name == "flipped_nullability_rid":
        F[0]["required"] = False
        return F
    if name == "extra_field":
        return F + [{"id": 6, "name": "extra", "type": "long", "required": False}]
    if name == "missing_field":
        return F[:-1]
    if name == "renamed":
        F[3]["name"] = "s2"
        return F
    raise ValueError(name)


SCHEMA_VARIANTS = ["omitted", "identical", "reordered", "reordered_same_type", "renumbered", "renumbered_fresh",
                   "other_types", "other_types_narrow", "flipped_nullability", "flipped_nullability_rid",
                   "extra_field", "missing_field", "renamed"]
SCHEMA_IDS = ["same_id", "other_id"]


class C11(Check):
    pid = "C11"
    level = "exploration"
    exhaustive = True
    rule = ("(A) for each of 11 column types a table (rid long required, x <type> optional, r <type> required) receives, "
            "as one multi-append history, every value class (boundaries, fractional/overflowing/NaN numerics, wrong "
            "Python types, unicode incl. lone surrogate, None into required, missing/extra keys) through append_records "
            "and Transaction.append_data; (B) 13 schema-argument variants x {same, other schema_id} x {fresh, reused "
            "(warm cache)} handle x 2 APIs on a 5-column table with two same-typed columns; (C) append_files with "
            "pre-built parquet whose footer equals / diverges from the table schema; after every call the pre/post "
            "contract is evaluated by the independent reader and every column is probed with ==/is_null filters on "
            "fresh and reused handles; non-trivial = an append that was accepted, or rejected after the data file had "
            "been written; distinct by (part, type/variant, value class, handle, api, outcome)")
    assumptions = [
        "str<->bytes / UUID-object coercions between text and binary columns are a representation question and are "
        "counted, not judged",
        "an int/bool is 'exactly representable' in a float/double column iff Python's exact int==float comparison holds",
    ]
    require = {"accepted": 80, "rejected": 80, "rejected_state_checked": 80, "filter_probes": 200}

    def gen_cases(self, tier: str, seed: int):
        for t in gen.TYPES:
            for api in ("append_records", "tx_append_data"):
                yield {"part": "values", "type": t, "api": api}
        for z in ("JST-9", "PST8PDT,M3.2.0,M11.1.0", "IST-5:30"):      # temporal values under non-UTC process time zones
            for t in ("timestamp", "date", "time"):
                yield {"part": "values", "type": t, "api": "append_records", "tz": z}
        for t in ("long", "int", "date", "double"):          # field type spelled {"type": t}
            yield {"part": "values", "type": t, "api": "append_records", "dict_type": True}
        for v in SCHEMA_VARIANTS:
            for sid in SCHEMA_IDS:
                for handle in ("fresh", "reused"):
                    for api in ("append_records", "tx_append_data", "tx_after_valid"):
                        yield {"part": "schema", "variant": v, "sid": sid, "handle": handle, "api": api}
        for v in ("equal", "reordered", "other_type", "nullability", "extra", "missing", "not_parquet",
                  "reordered_declared_avro", "garbage_declared_orc"):
            yield {"part": "files", "variant": v}
        for how in ("one_transaction", "two_commits"):
            yield {"part": "samename", "how": how}

    # ------------------------------------------------------------------
    def run_case(self, case: Any, res: CaseResult, tier: str) -> None:
        getattr(self, "_" + case["part"])(case, res)

    @staticmethod
    def _state(root: str) -> Dict[str, Any]:
        tv = reader.read_table(reader.Blobs.local(root))
        return {"ids": [s.id for s in tv.snapshots], "current": tv.current_id, "reach": tv.reachable(),
                "rows": tv.current_rows(), "pointer": tv.pointer}

    @staticmethod
    def _append(t: Any, api: str, recs: List[Dict[str, Any]], schema: Any = None) -> None:
        if api == "append_records":
            t.append_records(recs, schema=schema)
        elif api == "tx_after_valid":
            # same transaction: first an append with the table's own schema, then the variant
            tx = t.new_transaction().begin()
            try:
                good = tables.schema_of(BASE_FIELDS, schema.schema_id if schema is not None else 1)
                tx.append_data([{"rid": 50, "a": 5, "b": 6, "s": "g", "d": 0.25}], schema=good)
                tx.append_data(recs, schema=schema)
                tx.commit()
            except BaseException:
                tx.rollback()
                raise
        else:
            tx = t.new_transaction().begin()
            try:
                tx.append_data(recs, schema=schema)
                tx.commit()
            except BaseException:
                tx.rollback()
                raise

    def _probe_filters(self, root: str, t_reused: Any, fields: List[Dict[str, Any]], res: CaseResult,
                       wit: Dict[str, Any], sigctx: str) -> bool:
        """Every column: full scan works, == on a present value and is_null agree with the evaluator."""
        import datashard as ds

        truth_tv = reader.read_table(reader.Blobs.local(root))
        cur = truth_tv.current()
        truth: List[Dict[str, Any]] = []
        if cur is not None:
            for fp in cur.files:
                truth.extend(reader.read_rows(reader.Blobs.local(root), fp))
        for hname, h in (("fresh", ds.load_table(root)), ("reused", t_reused)):
            try:
                full = h.scan()
            except Exception as e:  # noqa
                res.violation(f"scan-broken-after-accept:{sigctx}",
                              f"full scan on {hname} handle raises after an accepted append: {type(e).__name__}: {str(e)[:200]}", wit)
                return False
            if reader.canon_rows(full) != reader.canon_rows(truth):
                res.violation(f"scan-differs-after-accept:{sigctx}", f"full scan on {hname} handle differs from the files' content", wit)
                return False
            for f in fields:
                col = f["name"]
                if f["type"] == "binary":
                    continue
                present = [r.get(col) for r in truth if r.get(col) is not None and not (isinstance(r.get(col), float) and math.isnan(r.get(col)))]
                probes: List[Tuple[str, Any]] = [("is_null", (col, ("is_null", True)))]
                if present:
                    probes.append(("==", (col, ("==", present[0]))))
                    probes.append(("==", (col, ("==", present[-1]))))
                for op, (c, cond) in probes:
                    exp = [r for r in truth if gen.eval_term(op, cond, r.get(c))]
                    try:
                        got = h.scan(filter={c: cond})
                    except Exception as e:  # noqa
                        res.violation(f"filter-broken-after-accept:{sigctx}",
                                      f"filter {c} {cond!r} raises on {hname} handle: {type(e).__name__}: {str(e)[:160]}", wit)
                        return False
                    res.count("filter_probes")
                    if reader.canon_rows(got) != reader.canon_rows(exp):
                        res.violation(f"misfilter-after-accept:{sigctx}",
                                      f"filter {c} {cond!r} on {hname} handle returns {len(got)} rows, expected {len(exp)}", wit)
                        return False
        return True

    # ---- (A) values ---------------------------------------------------------
    def _values(self, case: Any, res: CaseResult) -> None:
        import datashard as ds

        t_name = case["type"]
        tspec: Any = {"type": t_name} if case.get("dict_type") else t_name
        fields = [{"id": 1, "name": "rid", "type": "long", "required": True},
                  {"id": 2, "name": "x", "type": tspec, "required": False},
                  {"id": 3, "name": "r", "type": tspec, "required": True}]
        good = [v for c, v in values_for(t_name)][0]
        with Scratch("c11") as d:
            root = str(d / "t")
            t = ds.create_table(root, schema=tables.schema_of(fields))
            rid = 0
            model: List[Dict[str, Any]] = []
            plan: List[Tuple[str, Dict[str, Any], str, Any]] = []
            for cname, v in values_for(t_name):
                plan.append((cname, {"x": v, "r": good}, "x", v))
            plan.append(("none_optional", {"x": None, "r": good}, "x", None))
            plan.append(("none_required", {"x": good, "r": None}, "r", None))
            plan.append(("missing_optional_key", {"r": good}, "x", None))
            plan.append(("missing_required_key", {"x": good}, "r", SKIP))
            plan.append(("extra_key", {"x": good, "r": good, "zzz": 1}, "x", SKIP))
            plan.append(("misspelt_optional_key", {"xx": good, "r": good}, "x", SKIP))   # as many keys as fields, one unknown
            plan.append(("second_good", {"x": good, "r": good}, "x", good))
            for cname, rec, col, v in plan:
                rid += 1
                rec = dict(rec, rid=rid)
                before = self._state(root)
                wit = {"type": t_name, "value_class": cname, "record": repr(rec), "api": case["api"]}
                sigctx = f"{t_name}{'(dict-typed)' if case.get('dict_type') else ''}:{cname}"
                res.evals += 1
                try:
                    self._append(t, case["api"], [rec])
                    outcome = "accept"
                except Exception as e:  # noqa
                    outcome = "raise"
                    wit["error"] = f"{type(e).__name__}: {str(e)[:160]}"
                after = self._state(root)
                if outcome == "raise":
                    res.count("rejected")
                    res.count("rejected_state_checked")
                    if after != before:
                        res.violation(f"rejected-append-left-trace:{sigctx}",
                                      "append raised but snapshot list / reachable files / rows changed", wit)
                        return
                    res.key(["values", t_name, cname, case["api"], "raise"])
                    continue
                res.count("accepted")
                if len(after["ids"]) != len(before["ids"]) + 1:
                    res.violation(f"accepted-no-snapshot:{sigctx}", "append returned but no new snapshot is visible", wit)
                    return
                try:
                    got = t.scan()
                except Exception as e:  # noqa
                    res.violation(f"scan-broken-after-accept:{sigctx}", f"scan raises after accepted append: {type(e).__name__}: {str(e)[:200]}", wit)
                    return
                new = [r for r in got if r["rid"] == rid]
                old = [r for r in got if r["rid"] != rid]
                if len(new) != 1 or reader.canon_rows(old) != reader.canon_rows(model):
                    res.violation(f"rows-wrong-after-accept:{sigctx}", f"scan shows {len(new)} copies of the new row, {len(old)} older rows (model {len(model)})", wit)
                    return
                model.append(new[0])
                if cname in ("none_required", "missing_required_key"):
                    res.violation(f"required-null-accepted:{t_name}", f"a record without the required field was accepted: {rec!r}", wit)
                    return
                if cname in ("extra_key", "misspelt_optional_key"):
                    res.violation(f"extra-key-accepted:{t_name}", "a record with an unknown field was accepted (field silently dropped)", wit)
                    return
                if v is not SKIP:
                    stored = new[0].get(col)
                    wit["stored"] = repr(stored)
                    ok = same(t_name, v, stored)
                    if ok is SKIP:
                        res.count("coercion_not_judged")
                    elif not ok:
                        res.violation(f"value-altered:{sigctx}",
                                      f"{t_name} column accepted {v!r} and stores {stored!r}", wit)
                        return
                if not self._probe_filters(root, t, fields, res, wit, sigctx):
                    return
                res.key(["values", t_name, cname, case["api"], "accept"])
                if len(res.samples) < 1:
                    res.sample({"type": t_name, "value_class": cname, "supplied": repr(v), "stored": repr(new[0].get(col)),
                                "api": case["api"]})

    # ---- (B) schema argument variants -------------------------------------------
    def _schema(self, case: Any, res: CaseResult) -> None:
        import datashard as ds

        with Scratch("c11s") as d:
            root = str(d / "t")
            t0 = ds.create_table(root, schema=tables.schema_of(BASE_FIELDS, 1))
            base_rows = [{"rid": 1, "a": 10, "b": 200, "s": "x", "d": 0.5},
                         {"rid": 2, "a": 20, "b": 100, "s": None, "d": None}]
            t0.append_records(base_rows)
            if case["handle"] == "reused":
                t = t0                       # Arrow-schema cache is warm for schema id 1
            else:
                t = ds.load_table(root)
            fields = schema_variant(case["variant"])
            schema = None
            if fields is not None:
                schema = tables.schema_of(fields, 1 if case["sid"] == "same_id" else 9)
            elif case["sid"] == "other_id":
                res.count("n/a")
                return
            rec = {"rid": 3, "a": 30, "b": 50, "s": "y", "d": 1.5}
            if fields is not None:
                names = {f["name"] for f in fields}
                rec = {k: v for k, v in rec.items() if k in names}
                if "extra" in names:
                    rec["extra"] = 7
                if "s2" in names:
                    rec["s2"] = "y"
                for f in fields:
                    if f["name"] == "a" and f["type"] == "string":
                        rec["a"] = "30"
            before = self._state(root)
            wit = {"variant": case["variant"], "schema_id": case["sid"], "handle": case["handle"], "api": case["api"],
                   "schema_fields": fields, "record": repr(rec)}
            sigctx = f"schema-{case['variant']}"
            res.evals += 1
            try:
                self._append(t, case["api"], [rec], schema=schema)
                outcome = "accept"
            except Exception as e:  # noqa
                outcome = "raise"
                wit["error"] = f"{type(e).__name__}: {str(e)[:160]}"
            after = self._state(root)
            res.key(["schema", case["variant"], case["sid"], case["handle"], case["api"], outcome])
            if outcome == "raise":
                res.count("rejected")
                res.count("rejected_state_checked")
                if after != before:
                    res.violation(f"rejected-append-left-trace:{sigctx}", "append raised but table state changed", wit)
                    return
                # "no trace" includes the handle itself: an ordinary append through the SAME handle must
                # still be exact and leave the table scannable / filterable from every handle
                plain = {"rid": 77, "a": 7, "b": 8, "s": "p", "d": 7.0}
                try:
                    t.append_records([plain])
                except Exception as e:  # noqa
                    res.violation(f"append-broken-after-reject:{sigctx}",
                                  f"ordinary append through the handle that had an append rejected raises {type(e).__name__}: {str(e)[:160]}", wit)
                    return
                try:
                    got = ds.load_table(root).scan()
                except Exception as e:  # noqa
                    res.violation(f"scan-broken-after-reject:{sigctx}",
                                  f"full scan raises after a rejected append followed by an ordinary one: {type(e).__name__}: {str(e)[:200]}", wit)
                    return
                new = [r for r in got if r.get("rid") == 77]
                if len(new) != 1 or reader.canon_row(new[0]) != reader.canon_row(plain):
                    res.violation(f"value-altered-after-reject:{sigctx}", f"row appended after a rejection comes back as {new!r}, supplied {plain!r}", wit)
                    return
                self._probe_filters(root, t, BASE_FIELDS, res, wit, sigctx + ":after-reject")
                return
            res.count("accepted")
            # accepted: the row must come back exactly as supplied, and the table must keep working
            exp_row = {"rid": 3, "a": rec.get("a"), "b": rec.get("b"), "s": rec.get("s"), "d": rec.get("d")}
            try:
                got = ds.load_table(root).scan()
            except Exception as e:  # noqa
                res.violation(f"scan-broken-after-accept:{sigctx}",
                              f"full scan raises after an append with schema variant '{case['variant']}' was accepted: "
                              f"{type(e).__name__}: {str(e)[:200]}", wit)
                return
            new = [r for r in got if r.get("rid") == 3]
            if len(new) != 1 or reader.canon_row(new[0]) != reader.canon_row(exp_row):
                res.violation(f"value-altered:{sigctx}", f"accepted row comes back as {new!r}, supplied {exp_row!r}", wit)
                return
            if not self._probe_filters(root, t, BASE_FIELDS, res, wit, sigctx):
                return
            # a second, plain append on both handles must still work
            for hname, h in (("reused", t), ("fresh", ds.load_table(root))):
                try:
                    h.append_records([{"rid": 100 + len(hname), "a": 1, "b": 2, "s": "z", "d": 2.5}])
                except Exception as e:  # noqa
                    res.violation(f"append-broken-after-accept:{sigctx}", f"plain append on {hname} handle raises: {type(e).__name__}: {str(e)[:160]}", wit)
                    return
            if not self._probe_filters(root, t, BASE_FIELDS, res, wit, sigctx):
                return
            if len(res.samples) < 1:
                res.sample({"schema_variant": case["variant"], "schema_id": case["sid"], "handle": case["handle"],
                            "outcome": outcome})

    # ---- (C) pre-built files ----------------------------------------------------------
    def _samename(self, case: Any, res: CaseResult) -> None:
        """two accepted pre-built files that carry the SAME basename in different partition directories: every row of
        both must come back (scan, filtered scan, batches, row_count), through fresh and reused handles"""
        import pyarrow as pa
        import pyarrow.parquet as pq

        import datashard as ds
        from datashard.data_structures import DataFile, FileFormat

        fields = [dict(f) for f in BASE_FIELDS[:4]]
        pf = pa.schema([pa.field("rid", pa.int64(), nullable=False), pa.field("a", pa.int64()), pa.field("b", pa.int64()),
                        pa.field("s", pa.string())])
        with Scratch("c11n") as d:
            root = str(d / "t")
            t = ds.create_table(root, schema=tables.schema_of(fields, 1))
            t.append_records([{"rid": 1, "a": 10, "b": 20, "s": "x"}])
            dfs = []
            for day, rid in (("day=1", 5), ("day=2", 6)):
                os.makedirs(os.path.join(root, "data", day), exist_ok=True)
                path = os.path.join(root, "data", day, "part-00000.parquet")
                pq.write_table(pa.Table.from_pylist([{"rid": rid, "a": rid * 10, "b": 1, "s": day}], schema=pf), path)
                dfs.append(DataFile(file_path=f"/data/{day}/part-00000.parquet", file_format=FileFormat.PARQUET,
                                    partition_values={}, record_count=1, file_size_in_bytes=os.path.getsize(path)))
            res.evals += 1
            wit = {"files": [x.file_path for x in dfs], "how": case["how"]}
            try:
                if case["how"] == "one_transaction":
                    with t.new_transaction() as tx:
                        tx.append_files(dfs)
                        tx.commit()
                else:
                    for x in dfs:
                        with t.new_transaction() as tx:
                            tx.append_files([x])
                            tx.commit()
            except Exception as e:  # noqa
                res.count("rejected")
                res.key(["samename", case["how"], "raise"])
                return
            res.count("accepted")
            res.key(["samename", case["how"], "accept"])
            for hname, h in (("reused", t), ("fresh", ds.load_table(root))):
                got = {"scan": sorted(r["rid"] for r in h.scan()),
                       "filter": sorted(r["rid"] for r in h.scan(filter={"rid": (">=", 0)})),
                       "batches": sorted(r["rid"] for b in h.scan_batches(batch_size=1) for r in b),
                       "row_count": h.row_count()}
                want = {"scan": [1, 5, 6], "filter": [1, 5, 6], "batches": [1, 5, 6], "row_count": 3}
                bad = {k: v for k, v in got.items() if v != want[k]}
                if bad:
                    res.violation(f"rows-lost-after-accept:same-basename:{'+'.join(sorted(bad))}",
                                  f"[{hname} handle] after accepting {wit['files']}: {bad} (expected ids [1, 5, 6] / 3 rows)", wit)
                    return

    def _files(self, case: Any, res: CaseResult) -> None:
        import pyarrow as pa
        import pyarrow.parquet as pq

        import datashard as ds
        from datashard.data_structures import DataFile, FileFormat

        fields = [dict(f) for f in BASE_FIELDS[:4]]
        with Scratch("c11f") as d:
            root = str(d / "t")
            t = ds.create_table(root, schema=tables.schema_of(fields, 1))
            t.append_records([{"rid": 1, "a": 10, "b": 20, "s": "x"}])
            v = case["variant"]
            cols = {"rid": pa.array([5], pa.int64()), "a": pa.array([50], pa.int64()),
                    "b": pa.array([60], pa.int64()), "s": pa.array(["p"], pa.string())}
            pf = [pa.field("rid", pa.int64(), nullable=False), pa.field("a", pa.int64()), pa.field("b", pa.int64()),
                  pa.field("s", pa.string())]
            if v in ("reordered", "reordered_declared_avro"):
                pf = [pf[0], pf[2], pf[1], pf[3]]
            elif v == "other_type":
                pf[1] = pa.field("a", pa.int32())
                cols["a"] = pa.array([50], pa.int32())
            elif v == "nullability":
                pf[0] = pa.field("rid", pa.int64(), nullable=True)
            elif v == "extra":
                pf.append(pa.field("e", pa.int64()))
                cols["e"] = pa.array([1], pa.int64())
            elif v == "missing":
                pf = pf[:3]
            path = os.path.join(root, "data", "prebuilt.parquet")
            if v in ("not_parquet", "garbage_declared_orc"):
                open(path, "wb").write(b"this is not parquet")
            else:
                tbl = pa.Table.from_arrays([cols[f.name] for f in pf], schema=pa.schema(pf))
                pq.write_table(tbl, path)
            fmt = FileFormat.AVRO if v.endswith("declared_avro") else FileFormat.ORC if v.endswith("declared_orc") else FileFormat.PARQUET
            df = DataFile(file_path="/data/prebuilt.parquet", file_format=fmt, partition_values={},
                          record_count=1, file_size_in_bytes=os.path.getsize(path))
            before = self._state(root)
            wit = {"prebuilt": v}
            res.evals += 1
            try:
                with t.new_transaction() as tx:
                    tx.append_files([df])
                    tx.commit()
                outcome = "accept"
            except Exception as e:  # noqa
                outcome = "raise"
                wit["error"] = f"{type(e).__name__}: {str(e)[:160]}"
            after = self._state(root)
            res.key(["files", v, outcome])
            if outcome == "raise":
                res.count("rejected")
                res.count("rejected_state_checked")
                if after != before:
                    res.violation(f"rejected-append-left-trace:files-{v}", "append_files raised but table state changed", wit)
                return
            res.count("accepted")
            if not self._probe_filters(root, t, fields, res, wit, f"files-{v}"):
                return
            rows = ds.load_table(root).scan()
            if not any(r.get("rid") == 5 and r.get("a") == 50 and r.get("s") == "p" for r in rows):
                res.violation(f"value-altered:files-{v}", "row of the accepted pre-built file not returned as stored", wit)


if __name__ == "__main__":
    raise SystemExit(C11().main())
