"""C18 - creating a table is idempotent and race-safe.

2-3 creators / openers / first appenders run under the cooperative scheduler from
four initial states.  Oracle: everybody ends up on one table uuid; an existing
table's identity, persisted schema and rows are never replaced; exactly one
initialisation takes effect when starting from nothing; rows == acked appends;
schema-less appends use the persisted schema, and raise when there is none.
"""
from __future__ import annotations

import os
from typing import Any, Dict, List, Optional, Sequence, Tuple

from vf import reader, tables
from vf.common import CaseResult, Check, Scratch, rng_for
from vf.interpose import Interposer
from vf.scenario import HINT, ClientLog, FlipLog, Template
from vf.sched import PCT, RandomWalk, Scheduler, SchedEnv, Scripted, adopt, explore_bounded

STATES = ["absent", "healthy", "pointer_lost", "creation_interrupted"]
ACTORS = ["create_a", "create_b", "create_a_append", "create_noschema", "load", "table_ctor", "load_append", "create_a_hintfail", "create_a_hint412"]

SCHEMA_B_FIELDS = [
    {"id": 1, "name": "id", "type": "long", "required": True},
    {"id": 2, "name": "v", "type": "string", "required": False},
    {"id": 3, "name": "w", "type": "long", "required": False},
]


def build_state(state: str):
    def fn(path: str) -> None:
        import datashard as ds

        if state == "absent":
            # the template must exist for cloning; an empty directory / empty prefix
            if not path.startswith("wh/"):
                os.makedirs(path, exist_ok=True)
            return
        t = ds.create_table(path, schema=tables.std_schema())
        if state == "creation_interrupted":
            return
        t.append_records(tables.rows([1, 2]))
        t.append_records(tables.rows([3]))
    return fn


class Exec:
    def __init__(self, case: Dict[str, Any], tmpl: Template, ip: Interposer):
        self.case = case
        self.tmpl = tmpl
        self.ip = ip

    def run(self, strategy: Any, seed: int = 0) -> Dict[str, Any]:
        import datashard as ds

        case = self.case
        inst = self.tmpl.clone()
        with inst:
            blobs = inst.blobs()
            state = case["state"]
            # damage for the pointer-less states
            if state in ("pointer_lost", "creation_interrupted"):
                if inst.backend == "local":
                    os.remove(os.path.join(inst.root, HINT))
                else:
                    inst.store.objects.pop(("bkt", inst.table_path + "/" + HINT), None)
            before_meta = None
            if state != "absent":
                vers = reader.metadata_versions(blobs)
                before = reader.read_table(blobs, metadata_name=vers[-1][1])
                before_meta = {"uuid": before.uuid, "schemas": before.meta["schemas"],
                               "rows": before.current_rows() if before.current() else [],
                               "ids": sorted(s.id for s in before.snapshots)}
            sched = Scheduler(strategy, clock=inst.store.clock if inst.store else None, seed=seed, max_steps=3000)
            flips = FlipLog(sched)
            clog = ClientLog(sched)
            seen: Dict[str, Any] = {}

            def mk(kind: str, name: str, base: int) -> Any:
                def fn() -> Any:
                    sa = tables.std_schema()
                    sb = tables.schema_of(SCHEMA_B_FIELDS, 2)
                    if kind in ("create_a", "create_a_append", "create_a_hintfail", "create_a_hint412"):
                        t = ds.create_table(inst.table_path, schema=sa)
                    elif kind == "create_b":
                        t = ds.create_table(inst.table_path, schema=sb)
                    elif kind == "create_noschema":
                        t = ds.create_table(inst.table_path)
                    elif kind == "table_ctor":
                        t = ds.Table(inst.table_path)
                    else:
                        t = ds.load_table(inst.table_path)
                    md = t.metadata_manager.refresh()
                    seen[name] = {"uuid": md.table_uuid if md else None}
                    if kind.endswith("_append"):
                        ev = clog.call(name, "append", ids=[base + 1, base + 2])
                        try:
                            t.append_records(tables.rows([base + 1, base + 2]))
                            clog.done(ev, "acked")
                        except Exception as e:  # noqa
                            clog.done(ev, "raised", error=f"{type(e).__name__}: {str(e)[:160]}", exc_type=type(e).__name__)
                        md2 = t.metadata_manager.refresh()
                        seen[name]["uuid_after_append"] = md2.table_uuid if md2 else None
                    return seen[name]["uuid"]
                return fn

            for i, kind in enumerate(case["actors"]):
                name = "ABC"[i]
                sched.spawn(name, clog.wrap(name, kind, mk(kind, name, 1000 * (i + 1))))
            self.ip.after.append(flips.l1_after)
            failing = {"ABC"[i] for i, k in enumerate(case["actors"]) if k == "create_a_hintfail"}
            fired = set()

            def hintfail(op: Any) -> None:
                if op.phase == "before" and op.path == HINT and op.name in ("local.write_file", "s3.write_file", "s3.write_file_cas"):
                    me = sched.me()
                    if me is not None and me.name in failing and me.name not in fired:
                        fired.add(me.name)
                        raise OSError("injected: the creator's pointer write failed")

            self.ip.before.append(hintfail)
            answered412 = {"ABC"[i] for i, k in enumerate(case["actors"]) if k == "create_a_hint412"}

            def hint412(req: Any) -> None:
                # object store: the creator's create-if-absent pointer PUT is applied, its response is lost, the
                # transport retries and the retry is answered 412 by the creator's own object
                if req.op == "PUT" and req.key.endswith(HINT) and "IfNoneMatch" in req.kw and req.effect == "written":
                    me = sched.me()
                    if me is not None and me.name in answered412 and me.name not in fired:
                        fired.add(me.name)
                        from vf.fakes3 import client_error
                        raise client_error("PreconditionFailed", "PUT", 412)

            if inst.store is not None:
                inst.store.after.append(flips.s3_after)
                inst.store.after.append(hint412)
                inst.store.keep_log = False
            try:
                with SchedEnv(sched, self.ip, inst.store):
                    outcome = sched.run()
            finally:
                self.ip.after.remove(flips.l1_after)
                self.ip.before.remove(hintfail)
            viol: List[Tuple[str, str]] = []
            final = reader.read_table(blobs)
            if final.meta is None and final.error == "no pointer":
                # nobody committed, so the pointer was never rewritten: the table is the latest
                # metadata version on disk (what the library's recovery resolves to)
                vers = reader.metadata_versions(blobs)
                if vers:
                    final = reader.read_table(blobs, metadata_name=vers[-1][1])
            if outcome == "ok":
                viol = self._judge(case, clog, seen, flips, final, before_meta, blobs)
            contention = sum(sched.counters.get(k, 0) for k in ("flock_waits", "rlock_waits", "virtual_sleeps"))
            return {"outcome": outcome, "viol": viol, "trace_key": sched.trace_key(), "steps": sched.nstep,
                    "events": clog.events, "seen": seen, "flips": list(flips.flips), "trace": sched.trace_names(),
                    "contention": contention,
                    "interleaved": len({n for n in sched.trace_names()}) > 1 and self._interleaved(sched.trace_names())}

    @staticmethod
    def _interleaved(names: List[str]) -> bool:
        changes = sum(1 for a, b in zip(names, names[1:]) if a != b)
        return changes >= len(set(names))

    def _judge(self, case: Any, clog: ClientLog, seen: Dict[str, Any], flips: FlipLog, final: reader.TableView,
               before_meta: Optional[Dict[str, Any]], blobs: reader.Blobs) -> List[Tuple[str, str]]:
        viol: List[Tuple[str, str]] = []
        state = case["state"]
        creators = [e for e in clog.events if e["op"].startswith(("create", "table_ctor"))]
        if final.meta is None:
            if any(e["outcome"] == "acked" for e in creators):
                viol.append(("table-unreadable-after-create", f"a creator returned but the table is unreadable: {final.error}"))
            return viol
        uuids = {n: s["uuid"] for n, s in seen.items()}
        for n, s in seen.items():
            if s.get("uuid_after_append") is not None:
                uuids[n + "+"] = s["uuid_after_append"]
        distinct = {u for u in uuids.values() if u is not None}
        if len(distinct | {final.uuid}) > 1:
            viol.append(("callers-on-different-tables", f"table uuids seen by callers {uuids}, final {final.uuid}"))
        if before_meta is not None:
            if final.uuid != before_meta["uuid"]:
                viol.append((f"existing-identity-replaced:{state}", f"uuid {before_meta['uuid']} -> {final.uuid}"))
            if final.meta["schemas"] != before_meta["schemas"]:
                viol.append((f"existing-schema-replaced:{state}", "persisted schema of the existing table changed"))
            if not set(before_meta["ids"]) <= {s.id for s in final.snapshots}:
                viol.append((f"existing-snapshots-lost:{state}", "snapshots of the existing table vanished"))
        # exactly one initialisation takes effect: never two initial metadata files (a creator that finds an
        # interrupted creation - v0 written, pointer missing - must adopt it, not initialise again)
        v0s = [n for v, n in reader.metadata_versions(blobs) if v == 0]
        if len(v0s) > 1:
            viol.append(("more-than-one-initial-metadata-file", f"{len(v0s)} v0 metadata files exist: {v0s}"))
        if before_meta is None:
            inits = [f for f in flips.flips if f[2].startswith("v0")]
            hintfail = any(e["op"] == "create_a_hintfail" for e in clog.events)
            # (a creator whose own pointer write failed leaves v0 without pointer; the others adopt it and
            # nobody writes an initial pointer - the first commit will)
            if creators and any(e["outcome"] == "acked" for e in creators) and \
                    (len(inits) > 1 or (len(inits) == 0 and not hintfail)):
                viol.append(("not-exactly-one-initialisation", f"{len(inits)} initial pointer writes observed: {inits}"))
        # rows = existing + acked appends
        exp = list(before_meta["rows"]) if before_meta else []
        raised_ids: List[int] = []
        for e in clog.events:
            if e["op"] == "append":
                if e["outcome"] == "acked":
                    exp += reader.canon_rows(tables.rows(e["ids"]))
                else:
                    raised_ids += e["ids"]
        try:
            got = final.current_rows()
        except reader.ReadError as ex:
            viol.append(("final-unreadable", str(ex)))
            return viol
        # rows may carry an extra null column when schema B won
        def strip(rows: List[str]) -> List[str]:
            import json
            out = []
            for r in rows:
                d = json.loads(r)
                d.pop("w", None)
                out.append(json.dumps(d, sort_keys=True))
            return sorted(out)
        if strip(got) != strip(exp):
            viol.append(("rows-differ-from-acked", f"final rows {len(got)} vs existing+acked {len(exp)}"))
        # a schema-less append on a table with no usable schema must raise
        cur_schema = final.meta["schemas"]
        usable = any(s["fields"] for s in cur_schema)
        for e in clog.events:
            if e["op"] == "append" and e["outcome"] == "acked" and not usable:
                viol.append(("schemaless-append-accepted", "append without any available schema was accepted"))
        return viol


class C18(Check):
    pid = "C18"
    level = "exploration"
    rule = ("2 actors over {create_table(schema A), create_table(schema B), create_table(A)+first append, create_table() "
            "without schema, load_table, Table(path), load_table+append} x initial state {absent, healthy with data, "
            "pointer lost, creation interrupted (v0 written, pointer missing)} x {local, CAS-S3 double}: ALL schedules with "
            "<=1 preemption for every pair (quick: a subset of pairs on S3), <=2 for key pairs; 3 actors under PCT/random. "
            "non-trivial = execution in which the actors were interleaved (not one after the other); distinct = gate-level trace")
    assumptions = [
        "a v0 metadata file without a pointer is an existing (empty) table: creators must adopt its identity",
        "load_table on a not-yet-created table may raise; that is not judged",
    ]
    require = {"executions_ok": 300, "interleaved_executions": 150}
    worker_timeout_s = {"quick": 1500, "thorough": 7200}

    def gen_cases(self, tier: str, seed: int):
        pairs = [("create_a", "create_b"), ("create_a_append", "create_b"), ("create_a_hintfail", "create_b"), ("create_a", "load_append"),
                 ("create_a_hint412", "create_b"),
                 ("create_a_append", "create_a_append"), ("create_noschema", "create_a_append"),
                 ("table_ctor", "create_a"), ("create_b", "load"), ("create_noschema", "load_append")]
        for state in STATES:
            for pr in pairs:
                bes = ["local", "s3"] if (tier == "thorough" or pr in pairs[:4]) else ["local"]
                if "create_a_hint412" in pr:
                    bes = ["s3"]
                for be in bes:
                    k = 1 if tier == "quick" else 2
                    nsh = 1 if k == 1 else 8
                    for sh in range(nsh):
                        yield {"mode": "dfs", "state": state, "actors": list(pr), "backend": be, "k": k,
                               "shard": sh, "nshards": nsh}
        if tier == "quick":
            for state, pr, be in [("absent", ("create_a_append", "create_b"), "local"),
                                  ("absent", ("create_a", "create_b"), "s3"),
                                  ("pointer_lost", ("create_a_append", "create_b"), "local")]:
                for sh in range(8):
                    yield {"mode": "dfs", "state": state, "actors": list(pr), "backend": be, "k": 2, "shard": sh, "nshards": 8}
        nrand = 40 if tier == "quick" else 500
        for i in range(nrand):
            rng = rng_for(seed, "c18r", i)
            yield {"mode": rng.choice(["pct", "random"]), "state": rng.choice(STATES),
                   "actors": [rng.choice(ACTORS) for _ in range(3)], "backend": rng.choice(["local", "local", "s3"]),
                   "seed": seed * 100000 + i, "runs": 6 if tier == "quick" else 12}

    def run_case(self, case: Any, res: CaseResult, tier: str) -> None:
        ip = Interposer().install()
        try:
            with Scratch("c18") as d:
                tmpl = Template(case["backend"], str(d))
                tmpl.build(build_state(case["state"]))
                ex = Exec(case, tmpl, ip)
                if case.get("_replay_schedule") is not None and case["mode"] == "dfs":
                    dev = [tuple(x) for x in case["_replay_schedule"]]
                    strat = Scripted(dev)
                    self._record(case, dev, ex.run(strat), res)
                elif case["mode"] == "dfs":
                    def run_once(dev: Sequence[Tuple[int, str, int]]) -> Tuple[Scripted, Any]:
                        strat = Scripted(dev)
                        return strat, ex.run(strat)

                    explore_bounded(run_once, case["k"], (case["shard"], case["nshards"]),
                                    on_result=lambda dev, r: self._record(case, dev, r, res))
                else:
                    for j in range(case["runs"]):
                        s = f"{case['seed']}:{j}"
                        strat = PCT(s, depth=3, est_steps=120) if case["mode"] == "pct" else RandomWalk(s, stay=0.7)
                        self._record(case, [("strategy", case["mode"], s)], ex.run(strat, seed=j), res)
        finally:
            ip.uninstall()

    def _record(self, case: Any, dev: Any, r: Dict[str, Any], res: CaseResult) -> None:
        res.evals += 1
        wit = {"case": case, "schedule": [list(x) for x in dev], "events": r["events"], "seen": r["seen"],
               "pointer_writes": r["flips"], "trace": r["trace"]}
        if r["outcome"] != "ok":
            res.violation(f"no-progress:{r['outcome']}", f"scheduler outcome {r['outcome']} after {r['steps']} steps", wit)
            return
        res.count("executions_ok")
        if r["interleaved"]:
            res.count("interleaved_executions")
            res.key(r["trace_key"])
        for e in r["events"]:
            if e["outcome"] == "raised":
                res.count(f"raised_{e['op']}_{e.get('exc_type')}")
        for sig, msg in r["viol"][:3]:
            res.violation(f"{sig}:{case['backend']}", msg, wit)
        if not r["viol"] and r["interleaved"] and len(res.samples) < 2:
            res.sample({"state": case["state"], "actors": case["actors"], "backend": case["backend"],
                        "schedule_deviations": [list(x) for x in dev], "uuids_seen": r["seen"],
                        "pointer_writes": r["flips"],
                        "events": [{k: e[k] for k in ("actor", "op", "call", "ret", "outcome")} for e in r["events"]]})


if __name__ == "__main__":
    raise SystemExit(C18().main())
