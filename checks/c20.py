"""C20 - both storage backends implement the same contract.

(a) differential op programs: LocalStorageBackend vs S3StorageBackend over the
    in-memory S3 double, op by op, over a small colliding key space;
(b) the seekable S3 range reader vs a local file on the same bytes for enumerated
    seek/read programs, with every Range header checked against the object size;
(c) retry behaviour per S3 request under enumerated fault prefixes (attempt counts).
"""
from __future__ import annotations

import io
import itertools
import os
from typing import Any, Dict, List, Optional, Tuple

import botocore.exceptions

from vf.common import CaseResult, Check, Scratch, rng_for
from vf.fakes3 import FakeS3Client, FakeS3Store, client_error

KEYS = ["a", "ab", "a.b", "data/x", "data/y.parquet", "data2/x", "data.bak", "datafile", "metadata/v1",
        "metadata/manifests/m1", "metadata.version-hint.text", "d/e/f"]
LIST_PREFIXES = ["data", "metadata", "metadata/manifests", "d", "d/e", "a", "", "data/", "dat", "missing", "metadata/"]
PREFIXES = ["", "wh/t", "deep/er/prefix", "data", "a", "metadata"]     # the last three re-occur INSIDE table-relative keys


def outcome(fn: Any) -> Tuple[str, Any]:
    try:
        return ("ok", fn())
    except FileNotFoundError:
        return ("notfound", None)
    except Exception as e:  # noqa
        return ("error", type(e).__name__)


def gen_program(rng: Any, n: int) -> List[Tuple[Any, ...]]:
    prog: List[Tuple[Any, ...]] = []
    for _ in range(n):
        k = rng.choice(KEYS)
        op = rng.choice(["write", "write", "write", "read", "open", "seekable", "exists", "exists", "list", "list",
                         "delete", "size", "mtime", "wjson", "rjson", "makedirs"])
        if op == "write":
            prog.append(("write", k, bytes(rng.getrandbits(8) for _ in range(rng.choice([0, 1, 7, 300])))))
        elif op == "wjson":
            prog.append(("wjson", k, {"k": k, "n": rng.randint(0, 9)}))
        elif op == "list":
            prog.append(("list", rng.choice(LIST_PREFIXES)))
        elif op == "makedirs":
            prog.append(("makedirs", rng.choice(["data", "metadata/manifests", "newdir/sub"])))
        else:
            prog.append((op, k))
    return prog


def apply(b: Any, step: Tuple[Any, ...]) -> Tuple[str, Any]:
    op = step[0]
    if op == "write":
        return outcome(lambda: b.write_file(step[1], step[2]))
    if op == "wjson":
        return outcome(lambda: b.write_json(step[1], step[2]))
    if op == "read":
        return outcome(lambda: b.read_file(step[1]))
    if op == "rjson":
        return outcome(lambda: b.read_json(step[1]))
    if op == "open":
        def f() -> bytes:
            with b.open_file(step[1]) as s:
                return s.read()
        return outcome(f)
    if op == "seekable":
        def g() -> bytes:
            with b.open_seekable(step[1]) as s:
                return s.read()
        return outcome(g)
    if op == "exists":
        return outcome(lambda: b.exists(step[1]))
    if op == "list":
        return outcome(lambda: sorted(p.replace(os.sep, "/") for p in b.list_files(step[1])))
    if op == "delete":
        return outcome(lambda: b.delete_file(step[1]))
    if op == "size":
        return outcome(lambda: b.get_size(step[1]))
    if op == "mtime":
        k, v = outcome(lambda: b.get_modified_time(step[1]))
        return (k, None)          # values are not compared, only found / not found
    if op == "makedirs":
        return outcome(lambda: b.makedirs(step[1], exist_ok=True))
    raise ValueError(op)


class Flaky:
    """S3 client wrapper failing the first len(plan) calls of one method."""

    def __init__(self, inner: Any):
        self.inner = inner
        self.plan: List[Any] = []
        self.method: Optional[str] = None
        self.attempts = 0
        self.body_plan: List[Any] = []

    def arm(self, method: str, plan: List[Any]) -> None:
        self.method = method
        self.plan = list(plan)
        self.attempts = 0

    def get_paginator(self, name: str) -> Any:
        from vf.fakes3 import _Paginator

        return _Paginator(self)       # pages are fetched through this wrapper, so faults apply

    def __getattr__(self, name: str) -> Any:
        real = getattr(self.inner, name)
        if name != self.method:
            return real

        def call(**kw: Any) -> Any:
            self.attempts += 1
            if self.plan:
                f = self.plan.pop(0)
                if f is not None:
                    raise f()
            resp = real(**kw)
            if self.body_plan and isinstance(resp, dict) and "Body" in resp:
                # the request succeeded; the connection breaks while the BODY is being read
                f = self.body_plan.pop(0)
                if f is not None:
                    resp = dict(resp, Body=_BrokenBody(f))
            return resp
        return call


class _BrokenBody:
    def __init__(self, mk: Any):
        self.mk = mk

    def read(self, *a: Any) -> bytes:
        raise self.mk()

    def close(self) -> None:
        pass

    def __enter__(self) -> "_BrokenBody":
        return self

    def __exit__(self, *a: Any) -> None:
        pass


TRANSIENT = {
    "500": lambda: client_error("InternalError", "Op", 500),
    "slowdown": lambda: client_error("SlowDown", "Op", 503),
    "conn": lambda: botocore.exceptions.EndpointConnectionError(endpoint_url="https://x"),
    "oserror": lambda: OSError("connection reset"),
}
PERMANENT = {
    "denied": lambda: client_error("AccessDenied", "Op", 403),
    "nobucket": lambda: client_error("NoSuchBucket", "Op", 404),
    "badkey": lambda: client_error("InvalidAccessKeyId", "Op", 403),
    # what botocore reports for a HEAD request (no body to carry an error code): the bare status
    "bare403": lambda: client_error("403", "Op", 403),
}


class C20(Check):
    pid = "C20"
    level = "exploration"
    rule = ("(a) random op programs (<=30 ops over 12 colliding keys, 11 list prefixes, 3 bucket prefixes) run op by op on "
            "LocalStorageBackend and S3StorageBackend-over-double, results compared under the stated equivalence; "
            "(b) ALL seek/read/readinto/readall/tell programs of <=2 steps (quick) / <=3 (thorough) + random longer ones "
            "over 6 object sizes x {bare S3RangeFile, buffered open_seekable} vs a local file; every Range header must "
            "satisfy 0<=first<=last<size; (c) per S3 request kind x fault prefix (0..7 transient failures of 4 kinds, "
            "permanent failure after 0..5 transients): result and attempt count. non-trivial = program touching >=2 "
            "colliding keys / seek program that moved the position / fault prefix of length>=1; distinct by program hash")
    assumptions = [
        "existence of *directories*, lock artefacts and mtime values are outside the compared contract",
        "no generated program makes one key both a file and a directory (unrepresentable locally)",
        "the S3 double is strongly consistent",
    ]
    require = {"ops_compared": 2000, "seek_programs": 1000, "range_requests_checked": 500, "retry_cases": 150}

    def gen_cases(self, tier: str, seed: int):
        n = 160 if tier == "quick" else 15000
        for i in range(n):
            yield {"part": "diff", "i": i, "seed": seed, "prefix": PREFIXES[i % len(PREFIXES)]}
        # every ordered triple of single-key operations after an initial write (state kept by the backend OBJECT between
        # calls - caches, remembered sizes - shows in such short same-key sequences, rarely in random programs)
        import itertools as _it
        single = ["write", "delete", "size", "seekable", "exists", "read", "mtime", "open"]
        triples = list(_it.product(single, repeat=3))
        chunk = 64
        for ci in range(0, len(triples), chunk):
            yield {"part": "diff", "i": 900000 + ci, "seed": seed, "prefix": PREFIXES[(ci // chunk) % 3],
                   "triples": [list(t) for t in triples[ci:ci + chunk]]}
        sizes = [0, 1, 2, 100, (1 << 20) - 1, (1 << 20) + 1]
        for si, size in enumerate(sizes):
            for mode in ("bare", "buffered"):
                chunks = 4 if tier == "quick" else 24
                for c in range(chunks):
                    yield {"part": "seek", "size": size, "mode": mode, "maxlen": 2 if tier == "quick" else 3,
                           "chunk": c, "chunks": chunks, "seed": seed, "random": 150 if tier == "quick" else 2000}
        for op in ["read_file", "write_file", "exists", "list_files", "delete_file", "get_size", "get_modified_time",
                   "read_file_with_etag", "open_file", "range_read", "write_file_cas", "open_seekable"]:
            yield {"part": "retry", "op": op}

    def run_case(self, case: Any, res: CaseResult, tier: str) -> None:
        import datashard.s3_consistency as s3c

        real_sleep = s3c.time.sleep
        s3c.time.sleep = lambda s: None      # back-off sleeps are virtual
        try:
            getattr(self, "_" + case["part"])(case, res)
        finally:
            s3c.time.sleep = real_sleep

    # ---- (a) ------------------------------------------------------------
    def _diff(self, case: Any, res: CaseResult) -> None:
        from datashard.storage_backend import LocalStorageBackend, S3StorageBackend

        rng = rng_for(case["seed"], "c20", case["i"])
        if case.get("triples"):
            for tr in case["triples"]:
                prog = [("write", "data/x", b"0123456789")]
                for op in tr:
                    prog.append(("write", "data/x", b"abc") if op == "write" else (op, "data/x"))
                self._diff_program(dict(case, triples=None), prog, 1000, res)
            return
        prog = gen_program(rng, rng.randint(8, 30))
        self._diff_program(case, prog, rng.choice([2, 3, 1000]), res)

    def _diff_program(self, case: Any, prog: List[Tuple[Any, ...]], page_size: int, res: CaseResult) -> None:
        from datashard.storage_backend import LocalStorageBackend, S3StorageBackend

        store = FakeS3Store(page_size=page_size)
        with Scratch("c20") as d:
            local = LocalStorageBackend(str(d / "root"))
            os.makedirs(str(d / "root"))
            s3 = S3StorageBackend.__new__(S3StorageBackend)
            s3.bucket, s3.prefix, s3.endpoint_url, s3.access_key, s3.secret_key = "bkt", case["prefix"], None, None, None
            s3.region, s3.use_conditional_writes = "us-east-1", True
            s3.s3 = FakeS3Client(store)
            # a neighbouring table in the same bucket must never leak into listings
            store.put_object(Bucket="bkt", Key=(case["prefix"] + "2/data/zz" if case["prefix"] else "zz-other"), Body=b"n")
            touched = set()
            for idx, step in enumerate(prog):
                a = apply(local, step)
                b = apply(s3, step)
                res.count("ops_compared")
                if len(step) > 1 and isinstance(step[1], str):
                    touched.add(step[1])
                if step[0] == "list" and a[0] == "ok":
                    # confined to the named directory (both backends)
                    pre = step[1].strip("/")
                    for side, r in (("local", a), ("s3", b)):
                        if r[0] == "ok":
                            esc = [p for p in r[1] if pre and not (p == pre or p.startswith(pre + "/"))]
                            if esc and not (not case["prefix"] and pre == "" ):
                                res.violation(f"listing-not-confined:{side}",
                                              f"{side} list_files({step[1]!r}) returned {esc[:4]} outside that directory",
                                              {"program": repr(prog[: idx + 1])[:1500], "prefix": case["prefix"]})
                                return
                if step[0] == "list" and not case["prefix"] and step[1] == "":
                    b = (b[0], [p for p in (b[1] or []) if p != "zz-other"]) if b[0] == "ok" else b
                if a != b:
                    res.violation(f"backends-differ:{step[0]}",
                                  f"op #{idx} {step[:2]}: local -> {str(a)[:120]}, s3 -> {str(b)[:120]}",
                                  {"program": repr(prog[: idx + 1])[:2000], "prefix": case["prefix"],
                                   "local": str(a)[:300], "s3": str(b)[:300]})
                    return
            res.evals += 1
            if len(touched) >= 2:
                res.key(["diff", case["i"]])
            if len(res.samples) < 1:
                res.sample({"bucket_prefix": case["prefix"], "program": [list(map(lambda x: x if not isinstance(x, bytes) else f"<{len(x)} bytes>", s)) for s in prog[:12]],
                            "ops": len(prog)})

    # ---- (b) ------------------------------------------------------------
    def _seek(self, case: Any, res: CaseResult) -> None:
        from datashard.storage_backend import S3RangeFile

        size = case["size"]
        rng = rng_for(case["seed"], "c20s", size, case["mode"], case["chunk"])
        data = bytes((i * 31 + 7) % 251 for i in range(size))
        offs = sorted({-1, 0, 1, size - 1, size, size + 1})
        steps: List[Tuple[Any, ...]] = [("seek", o, w) for o in offs for w in (0, 1, 2)]
        steps += [("read", n) for n in (-1, 0, 1, 2, size + 5)] + [("tell",), ("readall",)]
        steps += [("readinto", n) for n in (0, 1, 3)] + [("seek", 0, 7)]
        store = FakeS3Store()
        store.put_object(Bucket="b", Key="k", Body=data)
        ranges: List[str] = []
        store.before.append(lambda req: ranges.append(req.kw["Range"]) if "Range" in req.kw else None)
        client = FakeS3Client(store)
        with Scratch("c20s") as d:
            path = str(d / "f")
            open(path, "wb").write(data)

            def run(prog: List[Tuple[Any, ...]]) -> None:
                if case["mode"] == "bare":
                    lf: Any = open(path, "rb", buffering=0)
                    sf: Any = S3RangeFile(client, "b", "k", size)
                else:
                    lf = open(path, "rb")
                    sf = io.BufferedReader(S3RangeFile(client, "b", "k", size), buffer_size=1 << 20)
                del ranges[:]
                la, sa = [], []
                for f, acc in ((lf, la), (sf, sa)):
                    for st in prog:
                        try:
                            if st[0] == "seek":
                                acc.append(("pos", f.seek(st[1], st[2])))
                            elif st[0] == "read":
                                acc.append(("bytes", f.read(st[1])))
                            elif st[0] == "tell":
                                acc.append(("pos", f.tell()))
                            elif st[0] == "readall":
                                acc.append(("bytes", f.readall() if hasattr(f, "readall") else f.read()))
                            elif st[0] == "readinto":
                                buf = bytearray(st[1])
                                n = f.readinto(buf)
                                acc.append(("bytes", bytes(buf[: n or 0])))
                            acc.append(("tell", f.tell()))
                        except (ValueError, OSError) as e:
                            acc.append(("error", "err"))
                lf.close()
                res.count("seek_programs")
                res.evals += 1
                if any(s[0] == "seek" for s in prog):
                    res.key(["seek", size, case["mode"], repr(prog)])
                for r in ranges:
                    res.count("range_requests_checked")
                    a, b = r[6:].split("-")
                    if not (0 <= int(a) <= int(b) < size):
                        res.violation("range-out-of-bounds", f"Range {r} requested for an object of {size} bytes",
                                      {"size": size, "mode": case["mode"], "program": repr(prog)})
                        return
                if la != sa:
                    i = next(i for i, (x, y) in enumerate(zip(la, sa)) if x != y)
                    res.violation(f"range-reader-differs:{case['mode']}",
                                  f"size={size} program {prog!r}: local {str(la[i])[:80]} vs s3 {str(sa[i])[:80]}",
                                  {"size": size, "mode": case["mode"], "program": repr(prog)})

            allp: List[List[Tuple[Any, ...]]] = []
            for n in range(1, case["maxlen"] + 1):
                allp.extend(list(p) for p in itertools.product(steps, repeat=n))
            for i, prog in enumerate(allp):
                if i % case["chunks"] == case["chunk"]:
                    run(prog)
                    if res.viol:
                        return
            for _ in range(case["random"] // case["chunks"]):
                run([rng.choice(steps) for _ in range(rng.randint(3, 6))])
                if res.viol:
                    return
            if len(res.samples) < 1:
                res.sample({"object_size": size, "mode": case["mode"], "example_program": [list(s) for s in allp[len(allp) // 2]],
                            "range_headers_seen": ranges[:3]})

    # ---- (c) ------------------------------------------------------------
    def _retry(self, case: Any, res: CaseResult) -> None:
        from datashard.s3_consistency import default_handler
        from datashard.storage_backend import CASConflictError, S3RangeFile, S3StorageBackend

        budget = default_handler.max_retries
        op = case["op"]
        meth = {"read_file": "get_object", "write_file": "put_object", "exists": "head_object",
                "list_files": "list_objects_v2", "delete_file": "delete_object", "get_size": "head_object",
                "get_modified_time": "head_object", "read_file_with_etag": "get_object", "open_file": "get_object",
                "range_read": "get_object", "write_file_cas": "put_object", "open_seekable": "head_object"}[op]

        def fresh() -> Tuple[Any, Flaky, FakeS3Store]:
            store = FakeS3Store()
            store.put_object(Bucket="bkt", Key="p/k", Body=b"0123456789")
            fl = Flaky(FakeS3Client(store))
            s3 = S3StorageBackend.__new__(S3StorageBackend)
            s3.bucket, s3.prefix, s3.endpoint_url, s3.access_key, s3.secret_key = "bkt", "p", None, None, None
            s3.region, s3.use_conditional_writes = "us-east-1", True
            s3.s3 = fl
            return s3, fl, store

        def do(s3: Any, fl: Flaky) -> Any:
            if op == "read_file":
                return s3.read_file("k")
            if op == "write_file":
                return s3.write_file("k", b"new")
            if op == "exists":
                return s3.exists("k")
            if op == "list_files":
                return sorted(s3.list_files(""))
            if op == "delete_file":
                return s3.delete_file("k")
            if op == "get_size":
                return s3.get_size("k")
            if op == "get_modified_time":
                return isinstance(s3.get_modified_time("k"), float)
            if op == "read_file_with_etag":
                return s3.read_file_with_etag("k")[0]
            if op == "open_file":
                return s3.open_file("k").read()
            if op == "range_read":
                return S3RangeFile(fl, "bkt", "p/k", 10).readall()
            if op == "write_file_cas":
                return s3.write_file_cas("k2", b"x", None)
            if op == "open_seekable":
                return s3.open_seekable("k").read()
            raise ValueError(op)

        s3, fl, _st = fresh()
        fl.arm(meth, [])
        baseline = outcome(lambda: do(s3, fl))
        base_attempts = fl.attempts
        single_attempt_op = op == "write_file_cas"
        for kind, mk in TRANSIENT.items():
            for n in range(0, 8):
                s3, fl, _st = fresh()
                fl.arm(meth, [mk] * n)
                got = outcome(lambda: do(s3, fl))
                res.count("retry_cases")
                res.evals += 1
                if n:
                    res.key(["retry", op, kind, n])
                wit = {"op": op, "fault": kind, "failures": n, "attempts": fl.attempts, "result": str(got)[:100]}
                if single_attempt_op:
                    if n >= 1 and (got[0] == "ok" or fl.attempts != 1):
                        res.violation("cas-write-retried", f"write_file_cas made {fl.attempts} attempts / returned after a transient error", wit)
                    continue
                if n <= budget:
                    if got != baseline:
                        res.violation(f"transient-not-masked:{op}", f"{n} transient {kind} failures (budget {budget}) changed the result: {got} vs {baseline}", wit)
                    elif fl.attempts != base_attempts + n:
                        res.violation(f"attempt-count:{op}", f"{n} failures -> {fl.attempts} attempts (expected {base_attempts + n})", wit)
                else:
                    if got[0] == "ok":
                        res.violation(f"beyond-budget-masked:{op}", f"{n} transient failures exceed the budget but the call returned", wit)
                    elif fl.attempts != budget + 1:
                        res.violation(f"attempt-count-beyond-budget:{op}", f"{fl.attempts} attempts, budget {budget}+1", wit)
        if op == "list_files":
            # a listing that spans several pages: a transient failure on page 2, 3.. is retried from the start;
            # the result must be exactly the fault-free listing (no duplicates, nothing missing)
            def fresh_paged() -> Tuple[Any, Flaky, FakeS3Store]:
                store = FakeS3Store(page_size=2)
                for i in range(7):
                    store.put_object(Bucket="bkt", Key=f"p/d/k{i}", Body=b"x")
                fl2 = Flaky(FakeS3Client(store))
                b = S3StorageBackend.__new__(S3StorageBackend)
                b.bucket, b.prefix, b.endpoint_url, b.access_key, b.secret_key = "bkt", "p", None, None, None
                b.region, b.use_conditional_writes = "us-east-1", True
                b.s3 = fl2
                return b, fl2, store

            b0, f0, _ = fresh_paged()
            f0.arm(meth, [])
            want = sorted(b0.list_files("d"))
            for page in range(0, 4):
                for nfail in (1, 2):
                    for kind, mk in TRANSIENT.items():
                        b1, f1, _ = fresh_paged()
                        f1.arm(meth, [None] * page + [mk] * nfail)
                        got = outcome(lambda: sorted(b1.list_files("d")))
                        res.count("retry_cases")
                        res.count("paged_listing_faults")
                        res.evals += 1
                        res.key(["paged", page, nfail, kind])
                        if got != ("ok", want):
                            res.violation("paged-listing-changed-by-retry",
                                          f"transient {kind} x{nfail} on page {page + 1} of a 4-page listing: result {str(got)[:160]} != {want}",
                                          {"page": page + 1, "failures": nfail, "fault": kind, "result": str(got)[:300]})
        if op in ("read_file", "read_file_with_etag", "range_read"):
            # the same transient faults, but striking while the response BODY is read (after a successful request)
            for kind in ("conn", "oserror"):
                for n in range(1, min(budget, 4) + 1):
                    s3, fl, _st = fresh()
                    fl.arm(meth, [])
                    fl.body_plan = [TRANSIENT[kind]] * n
                    got = outcome(lambda: do(s3, fl))
                    res.count("retry_cases")
                    res.count("body_read_faults")
                    res.evals += 1
                    res.key(["body", op, kind, n])
                    if got != baseline:
                        res.violation(f"transient-body-read-error-not-masked:{op}",
                                      f"{n} x {kind} while reading the response body: {str(got)[:120]} instead of {str(baseline)[:60]}",
                                      {"op": op, "fault": kind, "failures": n, "attempts": fl.attempts})
        for kind, mk in PERMANENT.items():
            for pre in range(0, budget + 1):
                s3, fl, _st = fresh()
                fl.arm(meth, [TRANSIENT["500"]] * pre + [mk])
                got = outcome(lambda: do(s3, fl))
                res.count("retry_cases")
                res.evals += 1
                res.key(["perm", op, kind, pre])
                wit = {"op": op, "fault": kind, "transients_before": pre, "attempts": fl.attempts, "result": str(got)[:100]}
                if single_attempt_op:
                    continue
                if got[0] == "ok":
                    res.violation(f"permanent-error-swallowed:{op}", f"permanent {kind} after {pre} transients: call returned {got}", wit)
                elif fl.attempts != pre + 1:
                    res.violation(f"permanent-error-retried:{op}", f"permanent {kind} after {pre} transients: {fl.attempts} attempts (expected {pre + 1})", wit)
        if len(res.samples) < 1:
            res.sample({"op": op, "budget": budget, "example": "3 x SlowDown then success -> same result, 4 attempts"})


if __name__ == "__main__":
    raise SystemExit(C20().main())
