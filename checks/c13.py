"""C13 - file pruning never changes a query's answer.

(a) exhaustive small-domain decision soundness of the real
    prune_files_by_bounds on bounds that went through the real write path and
    the real manifest round trip;
(b) random multi-file tables: scan with pruning vs the same scan with pruning
    replaced by the identity;
(c) decoded bounds equal the true min/max with the same Python type.
"""
from __future__ import annotations

import datetime as dt
import io
from decimal import Decimal
import itertools
import os
import math
from typing import Any, Dict, List, Optional, Tuple

from vf import gen, reader, tables
from vf.common import CaseResult, Check, Scratch, rng_for

NAN = float("nan")

DOMAINS: Dict[str, List[Any]] = {
    "long": [-1, 0, 1, 2, 2**53 + 1],
    "int": [-1, 0, 1, 2**31 - 1],
    "double": [-1.0, 0.0, 0.1, 0.5, 1.0, NAN, float("inf")],      # 0.1 is not exactly representable (Decimal literals)
    "float": [gen.f32(0.1), 0.0, gen.f32(0.30000001192092896), NAN, float("-inf")],
    "string": ["", "1", "10", "9", "a", "é", "https://example.org/path/a/1", "https://example.org/path/a/2"],
    "date": [dt.date(1969, 12, 31), dt.date(1970, 1, 1), dt.date(2024, 2, 29)],
    "timestamp": [dt.datetime(1969, 12, 31, 23, 59, 59), dt.datetime(1970, 1, 1),
                  dt.datetime(2024, 2, 29, 12, 0, 0, 1),
                  dt.datetime(2021, 3, 14, 2, 10), dt.datetime(2021, 3, 14, 2, 50)],   # inside the US spring-forward gap
    "boolean": [False, True],
    "time": [dt.time(0, 0), dt.time(12, 30, 15, 250000)],
}
OPS = ["==", "!=", "<", "<=", ">", ">="]
# literals of a *different but comparable* Python type than the column's (what users actually pass):
# datetime on a date column and vice versa, ints on float columns, fractional floats on integer columns
CROSS_LITERALS: Dict[str, List[Any]] = {
    "date": [dt.datetime(1970, 1, 1, 12, 0), dt.datetime(1969, 12, 31, 23, 59, 59), dt.datetime(1970, 1, 1), "1970-01-01"],
    "timestamp": [dt.date(1970, 1, 1), dt.date(1969, 12, 31), dt.date(2024, 2, 29), dt.datetime(2021, 3, 14, 3, 0), "1970-01-01T00:00:00"],
    "long": [0.5, 1.5, -0.5, 1.0, float(2 ** 53), 9.3e18, Decimal("1.5"), Decimal("1"), "1", "2"],
    "string": [b"a", 1],
    "int": [0.5, 1.0],
    "double": [0, 1, -1, Decimal("0.1"), Decimal("0.5"), 2 ** 53 + 1],
    # a Python float (double) literal against a 32-bit column: the engine rounds the members of an IN set to float32
    "float": [0, 1, 0.1, Decimal("0.5")],
}


def isnan(v: Any) -> bool:
    return isinstance(v, float) and math.isnan(v)


def vrepr(v: Any) -> str:
    return "NaN" if isnan(v) else repr(v)


class C13(Check):
    pid = "C13"
    level = "exploration"
    exhaustive = True
    rule = ("(a) for each of 9 column types: every value multiset of size 1..3 over a boundary domain + NULL "
            "is written as a one-file real table; for every operator (==,!=,<,<=,>,>=,in,between) x "
            "literal(s) from the domain the real prune_files_by_bounds decides on the manifest-round-tripped "
            "DataFile, ground truth = the library's own Arrow expression applied to the actual parquet file "
            "(exhaustive for that domain); (b) random multi-file tables, pruned vs unpruned scans over 3 APIs; "
            "(c) decoded bounds == true min/max incl. Python type. non-trivial = a decision/scan in which at "
            "least one file was actually skipped; distinct by (type, op, value-class of file, literal class)")
    assumptions = [
        "ground truth for 'some row matches' is Arrow's evaluation of the same expression the scan applies",
        "files whose float column contains NaN may legitimately carry no bounds (less selective, still sound)",
    ]
    require = {"decisions": 1000, "decisions_skipped": 50, "e2e_files_skipped": 5, "bounds_checked": 50}

    def gen_cases(self, tier: str, seed: int):
        for t, dom in DOMAINS.items():
            vals = dom + [None]
            multisets: List[Tuple[Any, ...]] = []
            for n in (1, 2, 3):
                multisets.extend(itertools.combinations_with_replacement(range(len(vals)), n))
            chunk = 12
            for i in range(0, len(multisets), chunk):
                yield {"kind": "decide", "type": t, "ms": multisets[i:i + chunk]}
        n = 60 if tier == "quick" else 6000
        for i in range(n):
            yield {"kind": "e2e", "i": i, "seed": seed}
        # one append of several thousand rows (the writer works in batches): NaN / NULL / extremes in ONE batch only
        for t in ("double", "float", "long"):
            for where in ("first", "middle", "last"):
                yield {"kind": "bigfile", "type": t, "where": where}
        # time zones: bounds of date/time/timestamp columns are encoded at write and decoded at read time - in a
        # non-UTC zone, across a DST gap, and with the table written under one zone and read under another
        zones = [("JST-9", None), ("EST5EDT,M3.2.0,M11.1.0", None), ("UTC0", "JST-9"), ("PST8PDT,M3.2.0,M11.1.0", "NPT-5:45")]
        for zi, (zw, zr) in enumerate(zones):
            for t in ("timestamp", "date", "time"):
                dom = DOMAINS[t]
                ms = list(itertools.combinations_with_replacement(range(len(dom) + 1), 2))
                yield {"kind": "decide", "type": t, "ms": ms, "tz": zw}
            for i in range(12 if tier == "quick" else 600):
                yield {"kind": "e2e", "i": 100000 + zi * 1000 + i, "seed": seed, "tz": zw, "tz_read": zr, "temporal": True}

    # ------------------------------------------------------------------
    def run_case(self, case: Any, res: CaseResult, tier: str) -> None:
        if case["kind"] == "bigfile":
            self._bigfile(case, res)
        elif case["kind"] == "decide":
            self._decide(case, res)
        else:
            self._e2e(case, res, tier)

    def _bigfile(self, case: Any, res: CaseResult) -> None:
        import datashard as ds
        import datashard.filters as F

        t_name = case["type"]
        fields = [{"id": 1, "name": "rid", "type": "long", "required": True},
                  {"id": 7, "name": "x", "type": t_name, "required": False}]
        n = 3500
        special = [NAN, None, float("inf")] if t_name != "long" else [None, 2 ** 53 + 1, -7]
        common = 5.0 if t_name != "long" else 5
        lo = {"first": 10, "middle": 1700, "last": 3400}[case["where"]]
        recs = []
        for i in range(n):
            v = special[(i - lo) % len(special)] if lo <= i < lo + 6 else common
            recs.append({"rid": i, "x": v})
        with Scratch("c13b") as d:
            root = str(d / "t")
            t = ds.create_table(root, schema=tables.schema_of(fields))
            t.append_records(recs)
            t.append_records([{"rid": n + 1, "x": common}])
            filters = [{"x": ("!=", common)}, {"x": (">", common)}, {"x": ("<", common)}, {"x": ("in", [s_ for s_ in special if s_ is not None])},
                       {"x": ("not_in", [common])}, {"x": ("is_null", True)}, {"x": ("==", common)}, {"x": ("between", (common, common))}]
            orig = F.prune_files_by_bounds
            for flt in filters:
                out = {}
                for mode in ("pruned", "unpruned"):
                    F.prune_files_by_bounds = orig if mode == "pruned" else (lambda files, e, s_: files)
                    try:
                        try:
                            out[mode] = ("ok", sorted(r["rid"] for r in t.scan(filter=flt)))
                        except Exception as e:  # noqa
                            out[mode] = ("raise", type(e).__name__)
                    finally:
                        F.prune_files_by_bounds = orig
                res.evals += 1
                res.count("bigfile_scans", 2)
                res.key(["bigfile", t_name, case["where"], repr(flt["x"][0])])
                if out["unpruned"][0] == "ok" and out["pruned"] != out["unpruned"]:
                    res.violation(f"e2e-differs:bigfile:{flt['x'][0]}:{t_name}",
                                  f"{n}-row file with {special} only at rows {lo}..{lo + 5}: filter {flt!r} gives "
                                  f"{len(out['pruned'][1]) if out['pruned'][0] == 'ok' else out['pruned']} rows pruned, "
                                  f"{len(out['unpruned'][1])} unpruned", {"type": t_name, "where": case["where"], "filter": repr(flt)})

    def _decide(self, case: Any, res: CaseResult) -> None:
        import pyarrow.parquet as pq

        import datashard as ds
        from datashard.filters import (FilterExpression, FilterOp, parse_filter_dict,
                                       prune_files_by_bounds, to_pyarrow_compute_expression)

        t_name = case["type"]
        dom = DOMAINS[t_name]
        vals = dom + [None]
        fields = [{"id": 1, "name": "rid", "type": "long", "required": True},
                  {"id": 7, "name": "x", "type": t_name, "required": False}]
        schema = tables.schema_of(fields)
        lits = list(dom) + CROSS_LITERALS.get(t_name, [])
        filters: List[Tuple[str, Any]] = []
        for op in OPS:
            for l in lits:
                filters.append((op, {"x": (op, l)}))
        for l in lits:
            filters.append(("in", {"x": ("in", [l])}))
        for a, b in itertools.combinations(lits, 2):
            filters.append(("in", {"x": ("in", [a, b])}))
            filters.append(("between", {"x": ("between", (a, b))}))
            filters.append(("between", {"x": ("between", (b, a))}))
        for trio in itertools.permutations(dom, 3):        # value sets in every order (NaN / None in the middle)
            filters.append(("in", {"x": ("in", list(trio))}))
        for a, b in itertools.combinations(dom, 2):
            filters.append(("in", {"x": ("in", [a, None, b])}))
        for idxs in case["ms"]:
            content = [vals[i] for i in idxs]
            with Scratch("c13") as d:
                root = str(d / "t")
                t = ds.create_table(root, schema=schema)
                t.append_records([{"rid": i, "x": v} for i, v in enumerate(content)])
                dfs = t._get_all_data_files()
                assert len(dfs) == 1
                df = dfs[0]
                path = d / "t" / df.file_path.lstrip("/")
                arrow_tbl = pq.read_table(str(path))
                stored = arrow_tbl.column("x").to_pylist()
                self._check_bounds(df, 7, stored, t_name, res, content)
                fclass = self._file_class(stored)
                for opname, flt in filters:
                    exprs = parse_filter_dict(flt)
                    try:
                        kept = prune_files_by_bounds([df], exprs, schema)
                    except Exception as e:  # noqa
                        res.violation(f"prune-raises:{t_name}:{opname}",
                                      f"prune_files_by_bounds raised {type(e).__name__}: {e}",
                                      {"file_values": [vrepr(v) for v in stored], "filter": repr(flt)})
                        continue
                    res.count("decisions")
                    res.evals += 1
                    if kept:
                        continue
                    res.count("decisions_skipped")
                    try:
                        expr = to_pyarrow_compute_expression(exprs)
                        nmatch = arrow_tbl.filter(expr).num_rows
                    except Exception:
                        # the in-memory kernel refuses this literal type; ask the library itself to read the file
                        # with pruning switched off (the property's own yardstick)
                        import datashard.filters as _fl
                        orig = _fl.prune_files_by_bounds
                        _fl.prune_files_by_bounds = lambda dfs_, ex_, sc_: dfs_
                        try:
                            nmatch = len(t.scan(filter=flt))
                            res.count("truth_from_unpruned_library_scan")
                        except Exception:
                            res.count("truth_na")
                            continue
                        finally:
                            _fl.prune_files_by_bounds = orig
                    lit = flt["x"][1]
                    lits_ = list(lit) if isinstance(lit, (list, tuple)) else [lit]
                    tnames = "+".join(sorted({type(v).__name__ for v in lits_ if v is not None})) or "none"
                    lclass = ("nan-literal" if any(isnan(v) for v in lits_) else "literal") + f"[{tnames}-on-{t_name}]"
                    res.key([t_name, opname, fclass, lclass])
                    if nmatch:
                        res.violation(
                            f"prune-unsound:{opname}:{fclass}:{lclass}",
                            f"file with values {[vrepr(v) for v in stored]} (bounds {df.lower_bounds}..{df.upper_bounds}) "
                            f"is skipped for {flt!r} although {nmatch} row(s) match",
                            {"type": t_name, "file_values": [vrepr(v) for v in stored], "filter": repr(flt),
                             "lower": repr(df.lower_bounds), "upper": repr(df.upper_bounds)})
                    elif len(res.samples) < 2:
                        res.sample({"type": t_name, "file_values": [vrepr(v) for v in stored],
                                    "filter": repr(flt), "decision": "skipped", "rows_matching": 0})

    @staticmethod
    def _file_class(stored: List[Any]) -> str:
        parts = []
        if any(isnan(v) for v in stored):
            parts.append("nan-in-file")
        if any(v is None for v in stored):
            parts.append("null-in-file")
        return "+".join(parts) or "plain-file"

    def _check_bounds(self, df: Any, fid: int, stored: List[Any], t_name: str, res: CaseResult,
                      content: Any) -> None:
        real = [v for v in stored if v is not None and not isnan(v)]
        lo = (df.lower_bounds or {}).get(fid)
        hi = (df.upper_bounds or {}).get(fid)
        if lo is None and hi is None:
            res.count("bounds_absent")
            return
        res.count("bounds_checked")
        if not real:
            # bounds present although no ordinary value exists (e.g. all-NaN): must not be usable
            if not (isnan(lo) or isnan(hi)):
                res.violation(f"bounds-invented:{t_name}", f"bounds {lo!r}..{hi!r} for values {stored!r}",
                              {"values": [vrepr(v) for v in stored]})
            return
        tmin, tmax = min(real), max(real)
        ok = (lo == tmin and hi == tmax and type(lo) is type(tmin) and type(hi) is type(tmax))
        if not ok:
            res.violation(f"bounds-roundtrip:{t_name}",
                          f"decoded bounds {lo!r}..{hi!r} differ from true min/max {tmin!r}..{tmax!r}",
                          {"values": [vrepr(v) for v in stored]})

    # ------------------------------------------------------------------
    def _e2e(self, case: Any, res: CaseResult, tier: str) -> None:
        import datashard as ds
        import datashard.filters as F

        rng = rng_for(case["seed"], "c13", case["i"])
        types = [t for t in gen.TYPES if t != "binary"]
        if case.get("temporal"):
            types = ["timestamp", "date", "time", "long"]
        fields = gen.gen_schema(rng, ncols=rng.randint(1, 3), types=types)
        layout = [l for l in gen.gen_layout(rng, fields, max_files=5, max_rows=4,
                                            nan_p=rng.choice([0.0, 0.3]), null_p=rng.choice([0.0, 0.3]))]
        with Scratch("c13e") as d:
            root = str(d / "t")
            t = ds.create_table(root, schema=tables.schema_of(fields))
            for recs in layout:
                t.append_records(recs)
            blobs = reader.Blobs.local(root)
            tv = reader.read_table(blobs)
            cur = tv.current()
            truth: List[Dict[str, Any]] = []
            if cur is not None:
                for fp in cur.files:
                    truth.extend(reader.read_rows(blobs, fp))
            for df in (t._get_all_data_files() if cur is not None else []):
                rows = reader.read_rows(blobs, df.file_path)
                for f in fields:
                    if f["type"] in ("binary",):
                        continue
                    self._check_bounds(df, f["id"], [r[f["name"]] for r in rows], f["type"], res, None)
            data_fields = [f for f in fields if f["name"] != "rid"]
            if case.get("tz_read"):
                # the table was written under case["tz"]; it is now re-opened and read under another zone
                import time as _time
                os.environ["TZ"] = case["tz_read"]
                _time.tzset()
                t = ds.load_table(root)
                res.count("cross_zone_tables")
            orig = F.prune_files_by_bounds
            calls = {"in": 0, "out": 0}

            def counting(files: Any, exprs: Any, schema: Any) -> Any:
                out = orig(files, exprs, schema)
                calls["in"] += len(files)
                calls["out"] += len(out)
                return out

            for _ in range(8 if tier == "quick" else 12):
                chosen = rng.sample(data_fields, min(rng.choice([1, 1, 2]), len(data_fields)))
                flt = {}
                ops = []
                for f in chosen:
                    op, cond, _k = gen.gen_filter_term(rng, f, [r[f["name"]] for r in truth])
                    flt[f["name"]] = cond
                    ops.append(op)
                results = {}
                skipped = 0
                for mode in ("pruned", "unpruned"):
                    F.prune_files_by_bounds = counting if mode == "pruned" else (lambda files, e, s: files)
                    calls["in"] = calls["out"] = 0
                    try:
                        outs = []
                        for api in ("scan", "scan_par", "batches"):
                            try:
                                if api == "scan":
                                    r = t.scan(filter=flt)
                                elif api == "scan_par":
                                    r = t.scan(filter=flt, parallel=2, verify_checksums=False)
                                else:
                                    r = [x for b in t.scan_batches(batch_size=2, filter=flt) for x in b]
                                outs.append(("ok", tuple(reader.canon_rows(r))))
                            except Exception as e:  # noqa
                                outs.append(("raise", type(e).__name__))
                        results[mode] = outs
                        if mode == "pruned":
                            skipped = (calls["in"] - calls["out"])
                    finally:
                        F.prune_files_by_bounds = orig
                res.evals += 1
                res.count("e2e_scans", 6)
                if skipped:
                    res.count("e2e_files_skipped", skipped)
                    res.key(["e2e", sorted(f["type"] for f in chosen), sorted(ops)])
                pr, un = results["pruned"], results["unpruned"]
                if all(k == "raise" for k, _v in un):
                    # unsupported by the engine without pruning: pruning may mask the raise when
                    # every file is skipped - not a changed *answer*; count only
                    res.count("e2e_engine_raise")
                    continue
                if pr != un:
                    nanfile = any(isnan(r[c]) for r in truth for c in flt)
                    res.violation(
                        f"e2e-differs:{'+'.join(sorted(ops))}:{'nan' if nanfile else 'nonan'}",
                        f"filter {flt!r}: pruned scan differs from unpruned scan",
                        {"fields": fields, "filter": repr(flt), "layout": repr(layout)[:1500],
                         "pruned": [(k, len(v) if k == 'ok' else v) for k, v in pr],
                         "unpruned": [(k, len(v) if k == 'ok' else v) for k, v in un]})
                elif skipped and len(res.samples) < 3:
                    res.sample({"schema": [(f["name"], f["type"]) for f in fields], "filter": repr(flt),
                                "files": len(layout), "files_skipped_by_pruning": skipped,
                                "rows_returned_pruned==unpruned": len(pr[0][1])})


if __name__ == "__main__":
    raise SystemExit(C13().main())
