"""E1 - deterministic cooperative scheduler for real threads running real
library code.  At most one actor runs at a time; every *gate* (an L1 storage
operation, an S3 request, a lock attempt, a sleep) parks the calling actor
until the strategy picks it again.  Monitors run in the scheduler thread while
every actor is parked.

Virtual time: `time.sleep` of an actor never sleeps; the sleeper may be resumed
after at least one step of another actor (a sleeping thread can wake at any
relative point of the others' progress) or, when nobody else can run, the
virtual clock jumps to its wake-up time.  Apart from that jump the clock only
moves through explicit environment actions - so lease expiry, grace periods and
timeouts are decided on logical steps, never on wall time.
"""
from __future__ import annotations

import random
import threading
import time as _time
import uuid as _uuid
from typing import Any, Callable, Dict, List, Optional, Sequence, Tuple

from .fakes3 import VClock

_real_sleep = _time.sleep
_real_uuid4 = _uuid.uuid4


class SchedAbort(BaseException):
    """Unwinds an actor when the scheduler gives up (deadlock / budget)."""


class Actor:
    def __init__(self, idx: int, name: str, fn: Callable[[], Any], seed: int):
        self.idx = idx
        self.name = name
        self.fn = fn
        self.state = "new"          # new | parked | running | done
        self.go = False
        self.label = "start"
        self.pred: Optional[Callable[[], bool]] = None
        self.wake_at: Optional[float] = None
        self.yielded = False
        self.timeout_hint: Optional[float] = None
        self.result: Any = None
        self.exc: Optional[BaseException] = None
        self.nsteps = 0
        self.last_ran = -1
        self.thread: Optional[threading.Thread] = None
        self.rng = random.Random(f"actor:{seed}:{name}")
        self.daemonic = False       # env actors: the run may end while they are parked

    def __repr__(self) -> str:
        return f"<{self.name} {self.state} @{self.label}>"


class Strategy:
    def choose(self, n: int, runnable: List[Actor], current: Optional[Actor]) -> Actor:
        raise NotImplementedError

    def on_yield(self, actor: Actor) -> None:
        pass


class Scripted(Strategy):
    """Default = keep running the current actor (else lowest index); a list of
    deviations (decision number -> actor name) overrides it.  Records every
    decision point with its alternatives for bounded-switch DFS."""

    def __init__(self, deviations: Sequence[Tuple[int, str, int]] = ()):
        self.dev = {n: name for n, name, _c in deviations}
        self.records: List[Tuple[int, str, List[str], bool]] = []
        self.infeasible = False

    def choose(self, n: int, runnable: List[Actor], current: Optional[Actor]) -> Actor:
        preempt = current is not None and current in runnable
        if preempt:
            default = current
        else:
            # fair default: an actor that is not merely resuming from a sleep goes first (two
            # spinning waiters must not starve the lock holder), then the least recently run
            awake = [a for a in runnable if a.wake_at is None]
            default = awake[0] if awake else min(runnable, key=lambda a: a.last_ran)
        alts = [a.name for a in runnable if a is not default]
        self.records.append((n, default.name, alts, preempt))
        want = self.dev.get(n)
        if want is not None:
            for a in runnable:
                if a.name == want:
                    return a
            self.infeasible = True
        return default


class ReplayNames(Strategy):
    def __init__(self, names: Sequence[str]):
        self.names = list(names)
        self.diverged = False

    def choose(self, n: int, runnable: List[Actor], current: Optional[Actor]) -> Actor:
        if n < len(self.names):
            for a in runnable:
                if a.name == self.names[n]:
                    return a
            self.diverged = True
        if current is not None and current in runnable:
            return current
        return runnable[0]


class RandomWalk(Strategy):
    def __init__(self, seed: Any, stay: float = 0.0):
        self.rng = random.Random(f"rw:{seed}")
        self.stay = stay

    def choose(self, n: int, runnable: List[Actor], current: Optional[Actor]) -> Actor:
        if current is not None and current in runnable and self.rng.random() < self.stay:
            return current
        return self.rng.choice(runnable)


class PCT(Strategy):
    """Probabilistic concurrency testing: random priorities, d-1 change points."""

    def __init__(self, seed: Any, depth: int = 3, est_steps: int = 120):
        self.rng = random.Random(f"pct:{seed}")
        self.depth = depth
        self.change = sorted(self.rng.randrange(1, max(2, est_steps)) for _ in range(max(0, depth - 1)))
        self.prio: Dict[str, float] = {}
        self.low = 0.0

    def _p(self, a: Actor) -> float:
        if a.name not in self.prio:
            self.prio[a.name] = 1.0 + self.rng.random()
        return self.prio[a.name]

    def on_yield(self, actor: Actor) -> None:
        self.low -= 1.0
        self.prio[actor.name] = self.low

    def choose(self, n: int, runnable: List[Actor], current: Optional[Actor]) -> Actor:
        best = max(runnable, key=self._p)
        if self.change and n >= self.change[0]:
            self.change.pop(0)
            self.low -= 1.0
            self.prio[best.name] = self.low
            best = max(runnable, key=self._p)
        return best


class SchedRLock:
    """Scheduler-aware re-entrant lock replacing a threading.RLock that the
    library holds across gates (MetadataManager._lock).  A blocked actor is
    *known* to be blocked, so no timeouts are needed in the scheduling logic."""

    def __init__(self, sched: "Scheduler", name: str = "rlock"):
        self.sched = sched
        self.name = name
        self.owner: Any = None
        self.count = 0
        self._real = threading.RLock()

    def _me(self) -> Any:
        a = self.sched.me()
        return a if a is not None else ("thread", threading.get_ident())

    def acquire(self, blocking: bool = True, timeout: float = -1) -> bool:
        me = self._me()
        if self.owner is not None and self.owner is not me and self.owner != me:
            if not blocking:
                return False
            if not isinstance(me, Actor):
                raise RuntimeError("non-actor thread contends on a scheduler lock")
            self.sched.count("rlock_waits")
            while self.owner is not None and self.owner is not me:
                self.sched.gate(f"wait:{self.name}", pred=lambda: self.owner is None)
        self.owner = me
        self.count += 1
        return True

    def release(self) -> None:
        self.count -= 1
        if self.count <= 0:
            self.count = 0
            self.owner = None

    __enter__ = acquire

    def __exit__(self, *a: Any) -> None:
        self.release()


class Scheduler:
    def __init__(self, strategy: Strategy, clock: Optional[VClock] = None, seed: int = 0,
                 max_steps: int = 3000, watchdog_s: float = 30.0):
        self.strategy = strategy
        self.clock = clock or VClock()
        self.seed = seed
        self.max_steps = max_steps
        self.watchdog_s = watchdog_s
        self.actors: List[Actor] = []
        self.by_thread: Dict[int, Actor] = {}
        self.cv = threading.Condition()
        self.trace: List[Tuple[str, str]] = []
        self.monitors: List[Callable[["Scheduler", Actor], None]] = []
        self.current: Optional[Actor] = None
        self.aborting = False
        self.active = False
        self.outcome = "notrun"
        self.counters: Dict[str, int] = {}
        self.nstep = 0
        self.violations: List[Tuple[str, str, Any]] = []
        self.stop_when: Optional[Callable[[], bool]] = None

    # ---- actor side ------------------------------------------------------
    def me(self) -> Optional[Actor]:
        # thread idents are recycled by the OS: a pool thread spawned by the library may reuse
        # the ident of an actor that already finished, so the thread object is compared as well
        a = self.by_thread.get(threading.get_ident())
        if a is not None and a.thread is threading.current_thread():
            return a
        return None

    def count(self, name: str, n: int = 1) -> None:
        self.counters[name] = self.counters.get(name, 0) + n

    def gate(self, label: str, pred: Optional[Callable[[], bool]] = None,
             sleep: Optional[float] = None, timeout_hint: Optional[float] = None) -> None:
        a = self.me()
        if a is None or not self.active:
            return
        if self.aborting:
            return
        with self.cv:
            a.label = label
            a.pred = pred
            a.timeout_hint = timeout_hint
            if sleep is not None:
                a.wake_at = self.clock.now() + max(0.0, sleep)
                a.yielded = True
            a.state = "parked"
            self.cv.notify_all()
            while not a.go:
                self.cv.wait()
            a.go = False
            a.pred = None
            a.wake_at = None
            a.timeout_hint = None
            a.state = "running"
        if self.aborting:
            raise SchedAbort()

    def _body(self, a: Actor) -> None:
        self.by_thread[threading.get_ident()] = a
        try:
            with self.cv:
                a.state = "parked"
                self.cv.notify_all()
                while not a.go:
                    self.cv.wait()
                a.go = False
                a.state = "running"
            if not self.aborting:
                a.result = a.fn()
        except SchedAbort:
            pass
        except BaseException as e:  # library exceptions are outcomes, kept for the oracle
            a.exc = e
        finally:
            self.by_thread.pop(threading.get_ident(), None)
            with self.cv:
                a.state = "done"
                self.cv.notify_all()

    # ---- harness side ----------------------------------------------------
    def spawn(self, name: str, fn: Callable[[], Any], daemonic: bool = False) -> Actor:
        a = Actor(len(self.actors), name, fn, self.seed)
        a.daemonic = daemonic
        self.actors.append(a)
        return a

    def _runnable(self) -> List[Actor]:
        now = self.clock.now()
        out = []
        for a in self.actors:
            if a.state != "parked":
                continue
            if a.pred is not None:
                try:
                    ok = bool(a.pred())
                except Exception:
                    ok = True
                if not ok:
                    continue
            if a.wake_at is not None and a.wake_at > now and a.yielded:
                continue
            out.append(a)
        return out

    def _wait_parked(self, a: Actor) -> bool:
        deadline = _time.monotonic() + self.watchdog_s
        with self.cv:
            while a.state == "running":
                left = deadline - _time.monotonic()
                if left <= 0:
                    return False
                self.cv.wait(left)
        return True

    def run(self) -> str:
        self.active = True
        for a in self.actors:
            a.thread = threading.Thread(target=self._body, args=(a,), name=f"actor-{a.name}", daemon=True)
            a.thread.start()
        with self.cv:
            deadline = _time.monotonic() + self.watchdog_s
            while any(a.state == "new" for a in self.actors):
                if not self.cv.wait(max(0.01, deadline - _time.monotonic())):
                    if _time.monotonic() > deadline:
                        break
        outcome = "ok"
        n = 0
        while True:
            live = [a for a in self.actors if a.state != "done"]
            if not [a for a in live if not a.daemonic]:
                break
            if self.stop_when is not None and self.stop_when():
                break
            runnable = self._runnable()
            if not runnable:
                # nobody can run: let virtual time pass
                sleepers = [a for a in live if a.state == "parked" and a.wake_at is not None
                            and (a.pred is None)]
                if sleepers:
                    t = min(a.wake_at for a in sleepers)  # type: ignore
                    self.clock.advance(t - self.clock.now() + 1e-6)
                    for a in sleepers:
                        if a.wake_at is not None and a.wake_at <= self.clock.now():
                            a.yielded = False
                    self.count("clock_jumps")
                    continue
                timed = [a for a in live if a.state == "parked" and a.timeout_hint is not None]
                if timed:
                    a = min(timed, key=lambda x: x.timeout_hint)  # type: ignore
                    self.clock.advance(a.timeout_hint or 0.0)
                    a.pred = None
                    self.count("timeout_jumps")
                    continue
                outcome = "deadlock"
                break
            if n >= self.max_steps:
                outcome = "budget"
                break
            now = self.clock.now()
            if all(a.wake_at is not None and a.wake_at > now for a in runnable):
                # every actor that could run is asleep: time passes until the first wake-up
                self.clock.advance(min(a.wake_at for a in runnable) - now + 1e-6)  # type: ignore
                self.count("clock_jumps")
            chosen = self.strategy.choose(n, runnable, self.current)
            if chosen.wake_at is not None and chosen.wake_at > self.clock.now():
                # an actor that resumes from sleep(d) has slept: at least d has passed for everybody. (Without this
                # two pollers could be scheduled in turn for ever next to a runnable but unscheduled lock holder,
                # with the clock standing still - a schedule no real system has.)
                self.clock.advance(chosen.wake_at - self.clock.now() + 1e-9)
                self.count("sleeps_elapsed")
            chosen.last_ran = n
            n += 1
            self.nstep = n
            self.trace.append((chosen.name, chosen.label))
            # everyone else who yielded may now be resumed (another actor stepped)
            for a in self.actors:
                if a is not chosen and a.yielded:
                    a.yielded = False
            with self.cv:
                chosen.go = True
                chosen.nsteps += 1
                chosen.state = "running"
                self.cv.notify_all()
            self.current = chosen
            if not self._wait_parked(chosen):
                outcome = "watchdog"
                break
            if chosen.state == "parked" and chosen.wake_at is not None:
                self.strategy.on_yield(chosen)
            for m in self.monitors:
                m(self, chosen)
        self.outcome = outcome
        self._shutdown()
        return outcome

    def _shutdown(self) -> None:
        self.aborting = True
        with self.cv:
            for a in self.actors:
                if a.state == "parked":
                    a.go = True
            self.cv.notify_all()
        for a in self.actors:
            if a.thread is not None:
                a.thread.join(5.0)
        self.active = False

    def trace_names(self) -> List[str]:
        return [n for n, _l in self.trace]

    def trace_key(self) -> str:
        import hashlib

        norm = "|".join(f"{n}:{_strip(l)}" for n, l in self.trace)
        return hashlib.sha1(norm.encode()).hexdigest()[:16]


def _strip(label: str) -> str:
    """Labels with run-specific random parts removed (uuids, timestamps)."""
    import re

    label = re.sub(r"[0-9a-f]{8,}", "#", label)
    label = re.sub(r"\d{6,}", "#", label)
    return label


# --------------------------------------------------------------------------
# process-wide patches that make an execution schedulable + deterministic
# --------------------------------------------------------------------------

class SchedEnv:
    """Installs: virtual sleep, virtual clocks for lock modules, per-actor
    deterministic uuid4, heartbeat-thread suppression, L1 + S3 request gates."""

    def __init__(self, sched: Scheduler, interposer: Any = None, store: Any = None,
                 gate_l1: bool = True, gate_s3: bool = True,
                 l1_filter: Optional[Callable[[Any], bool]] = None):
        self.sched = sched
        self.ip = interposer
        self.store = store
        self.gate_l1 = gate_l1
        self.gate_s3 = gate_s3
        self.l1_filter = l1_filter
        self._gp: Any = None
        self.flock_holders: Dict[str, Any] = {}

    def __enter__(self) -> "SchedEnv":
        import datashard.file_lock as fl
        import datashard.lock_provider as lp
        import datashard.s3_consistency as s3c

        from .interpose import GlobalPatch, ModuleProxy

        sched = self.sched
        gp = GlobalPatch()
        self._gp = gp

        def vsleep(d: float) -> None:
            a = sched.me()
            if a is None or not sched.active or sched.aborting:
                _real_sleep(min(float(d), 0.002))
                return
            sched.count("virtual_sleeps")
            sched.gate("sleep", sleep=float(d))

        def vtime() -> float:
            return sched.clock.now()

        gp.set(_time, "sleep", vsleep)
        for mod in (fl, lp, s3c):
            gp.set(mod, "time", ModuleProxy(_time, {"sleep": vsleep, "time": vtime, "monotonic": vtime}))

        def vuuid4() -> Any:
            a = sched.me()
            if a is None:
                return _real_uuid4()
            return _uuid.UUID(int=a.rng.getrandbits(128), version=4)

        gp.set(_uuid, "uuid4", vuuid4)
        gp.set(lp.S3LockProviderBase, "_start_heartbeat", lambda self_: None)

        if self.ip is not None and self.gate_l1:
            self.ip.before.append(self._l1_gate)
            self.ip.after.append(self._l1_after)
        if self.store is not None and self.gate_s3:
            self.store.before.append(self._s3_gate)
        return self

    # L1 gate: before the effect of each storage op
    def _l1_gate(self, op: Any) -> None:
        sched = self.sched
        if sched.me() is None:
            return
        if op.name.startswith("s3.") or op.name.startswith("s3lock."):
            if self.store is not None and self.gate_s3:
                return  # gated at request granularity instead
        if op.depth > 0 and not op.name.startswith("flock."):
            return
        if self.l1_filter is not None and not self.l1_filter(op):
            return
        if op.name == "flock.try":
            path = op.obj.lock_file
            holder = self.flock_holders.get(path)
            if holder is not None and holder is not op.obj:
                sched.count("flock_waits")
                sched.gate(f"flock.wait", pred=lambda: self.flock_holders.get(path) is None,
                           timeout_hint=float(op.obj.timeout) + 1.0)
                return
        sched.gate(op.brief())

    def _l1_after(self, op: Any) -> None:
        if op.name == "flock.try" and op.exc is None and op.result:
            self.flock_holders[op.obj.lock_file] = op.obj
        elif op.name == "flock.release":
            if self.flock_holders.get(op.obj.lock_file) is op.obj and not op.obj._locked:
                self.flock_holders.pop(op.obj.lock_file, None)

    def _s3_gate(self, req: Any) -> None:
        if self.sched.me() is None:
            return
        self.sched.gate("s3:" + req.brief())

    def __exit__(self, *a: Any) -> None:
        if self.ip is not None:
            for h in (self._l1_gate,):
                if h in self.ip.before:
                    self.ip.before.remove(h)
            if self._l1_after in self.ip.after:
                self.ip.after.remove(self._l1_after)
        if self.store is not None and self._s3_gate in self.store.before:
            self.store.before.remove(self._s3_gate)
        self._gp.restore()


def adopt(sched: Scheduler, *tables: Any) -> None:
    """Make a Table's in-process metadata lock scheduler-aware."""
    for t in tables:
        t.metadata_manager._lock = SchedRLock(sched, "mm")


# --------------------------------------------------------------------------
# bounded-preemption DFS
# --------------------------------------------------------------------------

def _owner(dev: Sequence[Tuple[int, str, int]], sn: int) -> int:
    import zlib

    return zlib.crc32(repr([(n, a) for n, a, _c in dev]).encode()) % sn


def explore_bounded(run_once: Callable[[Sequence[Tuple[int, str, int]]], Tuple[Scripted, Any]],
                    k: int, shard: Tuple[int, int] = (0, 1), max_runs: int = 100000,
                    on_result: Optional[Callable[[Sequence[Tuple[int, str, int]], Any], None]] = None,
                    split_depth: int = 2) -> Dict[str, int]:
    """Stateless enumeration of all schedules with <= k preemptions.

    run_once(deviations) executes one schedule and returns (strategy, result).
    Sharding: nodes above `split_depth` deviations are executed by every shard
    (they are needed to discover their children) but reported only by their
    owner; a subtree rooted at depth `split_depth` is explored only by the shard
    that owns its root (crc of the deviation list), which balances the shards
    even though early deviations have much larger subtrees than late ones.
    """
    si, sn = shard
    stats = {"runs": 0, "truncated": 0, "infeasible": 0, "shared_prefix_runs": 0}
    stack: List[List[Tuple[int, str, int]]] = [[]]
    while stack:
        dev = stack.pop()
        if stats["runs"] + stats["shared_prefix_runs"] >= max_runs:
            stats["truncated"] = 1
            break
        strat, result = run_once(dev)
        depth = len(dev)
        mine = depth >= split_depth or _owner(dev, sn) == si
        if strat.infeasible:
            stats["infeasible"] += 1
        elif mine:
            stats["runs"] += 1
            if on_result is not None:
                on_result(dev, result)
        else:
            stats["shared_prefix_runs"] += 1
        last = dev[-1][0] if dev else -1
        used = sum(c for _n, _a, c in dev)
        children = []
        for (n, _default, alts, preempt) in strat.records:
            if n <= last:
                continue
            c = 1 if preempt else 0
            if used + c > k:
                continue
            for a in alts:
                ch = dev + [(n, a, c)]
                if len(ch) == split_depth and _owner(ch, sn) != si:
                    continue
                children.append(ch)
        for ch in reversed(children):
            stack.append(ch)
    return stats
