"""Helpers to build real DataShard tables for the checks."""
from __future__ import annotations

import os
from typing import Any, Dict, List, Optional

STD_FIELDS = [
    {"id": 1, "name": "id", "type": "long", "required": True},
    {"id": 2, "name": "v", "type": "string", "required": False},
]


def std_schema(schema_id: int = 1) -> Any:
    from datashard.data_structures import Schema

    return Schema(schema_id=schema_id, fields=[dict(f) for f in STD_FIELDS])


def schema_of(fields: List[Dict[str, Any]], schema_id: int = 1) -> Any:
    from datashard.data_structures import Schema

    return Schema(schema_id=schema_id, fields=[dict(f) for f in fields])


def rows(ids: List[int], tag: str = "r") -> List[Dict[str, Any]]:
    return [{"id": i, "v": f"{tag}{i}"} for i in ids]


def ids_of(records: List[Dict[str, Any]]) -> List[int]:
    return sorted(r["id"] for r in records)


def current_files(table: Any) -> List[str]:
    return [df.file_path for df in table._get_all_data_files()]


def age_tree(root: str, seconds: float, only: Optional[List[str]] = None) -> None:
    """Make every file under root look `seconds` old (os.utime)."""
    import time

    t = time.time() - seconds
    for d, _dirs, files in os.walk(root):
        for f in files:
            p = os.path.join(d, f)
            rel = os.path.relpath(p, root)
            if only is not None and not any(rel.startswith(o) for o in only):
                continue
            try:
                os.utime(p, (t, t))
            except OSError:
                pass
