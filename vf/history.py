"""History driver: executes generated operation sequences against a real table
while maintaining an independent model (commit order, true ancestry, rows and
file sets of every snapshot at commit time, per-file adding snapshot).  After
every step the independent reader (E4) observes the table; checks C05, C09, C15
attach their oracles to those observations.
"""
from __future__ import annotations

import copy
import os
import random
import time
from typing import Any, Callable, Dict, List, Optional, Set, Tuple

from . import reader, tables
from .interpose import FaultPlan, GlobalPatch, Interposer, patch_datetime


class Clock:
    """now() source for the metadata plane."""

    def __init__(self, mode: str, rng: random.Random):
        self.mode = mode
        self.rng = rng
        self.base = 1_750_000_000.0
        self.t = self.base
        self.calls = 0

    def now(self) -> float:
        self.calls += 1
        if self.mode == "real":
            return time.time()
        if self.mode == "frozen":
            return self.base
        if self.mode == "coarse":          # advances 1 ms every ~40 calls: several commits per ms
            return self.base + (self.calls // 40) * 0.001
        if self.mode == "backwards":       # random walk, may go back by up to 5 ms
            self.t += self.rng.choice([-0.005, -0.001, 0.0, 0.001, 0.002, 0.01])
            return self.t
        if self.mode == "stepback":        # ~1 ms per call; now and then the wall clock is stepped back an hour (NTP,
            self.t += 0.0007               # a writer host whose clock runs behind)
            if self.rng.random() < 1 / 45:
                self.t -= 3600.0
            return self.t
        raise ValueError(self.mode)


class SnapModel:
    def __init__(self, sid: int, parent: Optional[int], order: int):
        self.id = sid
        self.parent = parent          # current snapshot when it was committed
        self.order = order            # commit order
        self.seq: Optional[int] = None
        self.ts: Optional[int] = None
        self.rows: Optional[List[str]] = None
        self.files: List[str] = []
        self.paths: List[str] = []    # manifest list + manifests + data files
        self.hashes: Dict[str, str] = {}


class History:
    def __init__(self, root: str, rng: random.Random, backend: str = "local", store: Any = None,
                 s3env: Any = None, table_path: Optional[str] = None, ip: Optional[Interposer] = None):
        import datashard as ds

        self.ds = ds
        self.root = root
        self.rng = rng
        self.backend = backend
        self.store = store
        self.s3env = s3env
        self.table_path = table_path or root
        self.ip = ip
        self.snaps: Dict[int, SnapModel] = {}
        self.order: List[int] = []                 # snapshot ids in commit order
        self.file_added: Dict[str, Tuple[Optional[int], Optional[int]]] = {}
        self.pointers: List[str] = []              # every pointer target observed, in order
        self.lsn: List[int] = []
        self.next_id = 1
        self.open_txs: List[Any] = []
        self.open_tx_files: List[List[str]] = []
        self.model_current: Optional[int] = None
        self.acked_rows: Dict[int, List[str]] = {}
        self.log: List[Any] = []
        self.last_view: Optional[reader.TableView] = None
        self.table = ds.create_table(self.table_path, schema=tables.std_schema())
        self.observe(("create",), True)

    # -- plumbing ----------------------------------------------------------
    def blobs(self) -> reader.Blobs:
        if self.backend == "local":
            return reader.Blobs.local(self.root)
        return reader.Blobs.s3(self.store, self.s3env.bucket, self.s3env.full_prefix(self.table_path))

    def fresh_ids(self, n: int) -> List[int]:
        ids = list(range(self.next_id, self.next_id + n))
        self.next_id += n
        return ids

    def view(self) -> reader.TableView:
        return reader.read_table(self.blobs())

    def observe(self, op: Any, ok: bool) -> reader.TableView:
        """E4 look at the table after a step; registers newly committed snapshots."""
        tv = self.view()
        self.last_view = tv
        if tv.pointer and (not self.pointers or self.pointers[-1] != tv.pointer):
            self.pointers.append(tv.pointer)
        if tv.meta is not None:
            self.lsn.append(tv.meta.get("last_sequence_number", 0))
            for sv in tv.snapshots:
                if sv.id not in self.snaps:
                    sm = SnapModel(sv.id, self.model_current, len(self.order))
                    sm.seq, sm.ts = sv.seq, sv.ts
                    sm.rows = sv.rows
                    sm.files = list(sv.files)
                    sm.paths = sv.all_paths()
                    b = self.blobs()
                    import hashlib

                    for p in sm.paths:
                        raw = b.get(p)
                        sm.hashes[p] = hashlib.sha1(raw or b"").hexdigest()
                    for e in sv.entries:
                        fp = reader.norm(e["data_file"]["file_path"])
                        if fp not in self.file_added:
                            self.file_added[fp] = (e.get("snapshot_id"),
                                                   e.get("file_sequence_number")
                                                   if e.get("file_sequence_number") is not None
                                                   else e.get("sequence_number"))
                    self.snaps[sv.id] = sm
                    self.order.append(sv.id)
            self.model_current = tv.current_id
        self.log.append({"op": op, "ok": ok, "pointer": tv.pointer, "current": tv.current_id,
                         "retained": [s.id for s in tv.snapshots]})
        return tv

    # -- operations --------------------------------------------------------
    def apply(self, op: Tuple[Any, ...]) -> Dict[str, Any]:
        """Executes one op; returns {'ok': bool, 'exc': str|None, ...}."""
        kind = op[0]
        out: Dict[str, Any] = {"ok": True, "exc": None}
        t = self.table
        try:
            if kind == "append":
                ids = self.fresh_ids(op[1])
                out["ids"] = ids
                t.append_records(tables.rows(ids))
            elif kind == "raced":
                # an append whose first attempt loses the race: a second handle commits an append right
                # before this transaction first tries to take the metadata lock (its base is read by
                # then); the commit has to retry
                ids2 = self.fresh_ids(1)
                ids = self.fresh_ids(op[1])
                out["ids"] = ids
                out["winner_ids"] = ids2
                st = {"done": False}
                other = self.ds.load_table(self.table_path)

                def race(o: Any) -> None:
                    if o.phase == "before" and not st["done"] and o.depth == 0 and \
                            (o.name == "flock.try" or o.name.startswith("s3lock.")):
                        st["done"] = True
                        other.append_records(tables.rows(ids2))
                        self.observe(("raced-winner",), True)

                self.ip.before.append(race)
                try:
                    t.append_records(tables.rows(ids))
                finally:
                    self.ip.before.remove(race)
                out["raced"] = st["done"]
            elif kind == "multi":
                with t.new_transaction() as tx:
                    allids = []
                    for n in op[1]:
                        ids = self.fresh_ids(n)
                        allids += ids
                        tx.append_data(tables.rows(ids))
                    out["ids"] = allids
                    tx.commit()
            elif kind == "delete":
                files = tables.current_files(t)
                if not files:
                    out["skipped"] = True
                else:
                    k = min(op[1], len(files))
                    victims = self.rng.sample(files, k)
                    if len(op) > 2 and op[2] == "nolead":
                        victims = [v.lstrip("/") for v in victims]
                    elif len(op) > 2 and op[2] == "flip":
                        # the other spelling of the same table-relative path
                        victims = [v.lstrip("/") if v.startswith("/") else "/" + v for v in victims]
                    out["victims"] = [reader.norm(v) for v in victims]
                    with t.new_transaction() as tx:
                        tx.delete_files(victims)
                        tx.commit()
            elif kind == "delete_append":
                files = tables.current_files(t)
                with t.new_transaction() as tx:
                    if files:
                        v = self.rng.choice(files)
                        out["victims"] = [reader.norm(v)]
                        tx.delete_files([v])
                    ids = self.fresh_ids(op[1])
                    out["ids"] = ids
                    tx.append_data(tables.rows(ids))
                    tx.commit()
            elif kind == "expire":
                tv = self.last_view
                tss = sorted(s.ts for s in (tv.snapshots if tv else []))
                if not tss:
                    out["skipped"] = True
                else:
                    which = op[1]
                    cutoff = tss[-1] + 1 if which == "all" else tss[min(which, len(tss) - 1)] + (op[2] if len(op) > 2 else 0)
                    out["cutoff"] = cutoff
                    with t.new_transaction() as tx:
                        tx.expire_snapshots(cutoff)
                        if len(op) > 3 and op[3] == "with_append":
                            ids = self.fresh_ids(1)
                            out["ids"] = ids
                            tx.append_data(tables.rows(ids))
                        tx.commit()
            elif kind == "delsnap":
                tv = self.last_view
                retained = [s.id for s in (tv.snapshots if tv else [])]
                if not retained:
                    out["skipped"] = True
                else:
                    by_order = sorted(retained, key=lambda s: self.snaps[s].order)
                    if op[1] == "current" and tv.current_id is not None:
                        sid = tv.current_id
                    else:
                        sid = by_order[int(op[1]) % len(by_order)] if op[1] != "current" else by_order[-1]
                    out["sid"] = sid
                    out["was_current"] = (sid == tv.current_id)
                    out["returned"] = t.snapshot_manager.delete_snapshot(sid)
            elif kind == "prop":
                mm = t.metadata_manager
                base = mm.refresh()
                new = copy.deepcopy(base)
                if op[2] is None:
                    new.properties.pop(op[1], None)
                else:
                    new.properties[op[1]] = op[2]
                mm.commit(base, new)
            elif kind == "fail_commit":
                ids = self.fresh_ids(op[1])
                out["ids"] = ids
                out["expect_fail"] = True
                plan = FaultPlan(0, lambda: OSError("injected: pointer write failed"),
                                 match=lambda o: o.name.endswith("write_file") and o.path == "metadata.version-hint.text"
                                 or o.name.endswith("write_file_cas"))
                self.ip.before.append(plan.hook)
                try:
                    t.append_records(tables.rows(ids))
                finally:
                    self.ip.before.remove(plan.hook)
            elif kind == "gc":
                from datashard.garbage_collector import GarbageCollector

                gc = GarbageCollector(t.table_path, t.metadata_manager, t.file_manager)
                if len(op) > 2:
                    out["stats"] = gc.collect(op[1], op[2])
                else:
                    out["stats"] = gc.collect(op[1])
            elif kind == "age":
                self.age_all(op[1])
            elif kind == "open_tx":
                tx = t.new_transaction().begin()
                ids = self.fresh_ids(op[1])
                tx.append_data(tables.rows(ids))
                self.open_txs.append((tx, ids))
                out["ids"] = ids
            elif kind == "open_tx_sub":
                # an open transaction that queued two PRE-BUILT files carrying the SAME basename in two
                # partition directories (data/p=1/part-N.parquet, data/p=2/part-N.parquet)
                import io as _io

                import pyarrow as pa
                import pyarrow.parquet as pq
                from datashard.data_structures import DataFile, FileFormat

                ids = self.fresh_ids(2)
                dfs = []
                paths = []
                for part, one in zip(("p=1", "p=2"), ids):
                    tbl = pa.Table.from_pylist(tables.rows([one]), schema=pa.schema(
                        [pa.field("id", pa.int64(), nullable=False), pa.field("v", pa.string())]))
                    buf = _io.BytesIO()
                    pq.write_table(tbl, buf)
                    rel = f"data/{part}/part-{ids[0]}.parquet"
                    t.storage.makedirs(f"data/{part}")
                    t.storage.write_file(rel, buf.getvalue())
                    paths.append(rel)
                    dfs.append(DataFile(file_path="/" + rel, file_format=FileFormat.PARQUET, partition_values={},
                                        record_count=1, file_size_in_bytes=len(buf.getvalue())))
                tx = t.new_transaction().begin()
                tx.append_files(dfs)
                self.open_txs.append((tx, ids))
                tx._verif_prebuilt = paths      # (kept on the object: id() values are recycled)
                out["ids"] = ids
                out["prebuilt"] = paths
            elif kind == "readopt_dead":
                # a transaction registered two pre-built files and DIED (no commit, no rollback: its markers stay and
                # grow older than the abandonment timeout); a new, live transaction then registers the same files
                import io as _io

                import pyarrow as pa
                import pyarrow.parquet as pq
                from datashard.data_structures import DataFile, FileFormat

                ids = self.fresh_ids(2)
                dfs, paths = [], []
                for one in ids:
                    tbl = pa.Table.from_pylist(tables.rows([one]), schema=pa.schema(
                        [pa.field("id", pa.int64(), nullable=False), pa.field("v", pa.string())]))
                    buf = _io.BytesIO()
                    pq.write_table(tbl, buf)
                    rel = f"data/bulk_{one}.parquet"
                    t.storage.write_file(rel, buf.getvalue())
                    paths.append(rel)
                    dfs.append(DataFile(file_path="/" + rel, file_format=FileFormat.PARQUET, partition_values={},
                                        record_count=1, file_size_in_bytes=len(buf.getvalue())))
                dead = t.new_transaction().begin()
                dead.append_files(dfs)
                dead_markers = list(dead._inflight_markers)
                dead._inflight_markers = []           # the process that owned it is gone: nothing will clean up
                dead._active = False if hasattr(dead, "_active") else None
                for rel in paths + dead_markers:      # long ago
                    if self.backend == "local":
                        pth = os.path.join(self.root, rel)
                        if os.path.exists(pth):
                            old_t = time.time() - 100000.0
                            os.utime(pth, (old_t, old_t))
                    else:
                        key = self.s3env.full_prefix(self.table_path) + "/" + rel
                        if (self.s3env.bucket, key) in self.store.objects:
                            self.store.set_age(self.s3env.bucket, key, 100000.0)
                tx = t.new_transaction().begin()
                tx.append_files(dfs)
                tx._verif_prebuilt = paths
                self.open_txs.append((tx, ids))
                out["ids"] = ids
                out["prebuilt"] = paths
            elif kind == "commit_tx":
                if not self.open_txs:
                    out["skipped"] = True
                else:
                    tx, ids = self.open_txs.pop(0)
                    out["ids"] = ids
                    tx.commit()
            elif kind == "rollback_tx":
                if not self.open_txs:
                    out["skipped"] = True
                else:
                    tx, ids = self.open_txs.pop(0)
                    out["rolled_back_ids"] = ids
                    tx.rollback()
            elif kind == "prebuilt":
                # append_files() of a parquet file built outside the library, its path spelled in one of several ways
                import pyarrow as pa
                import pyarrow.parquet as pq
                from datashard.data_structures import DataFile, FileFormat

                ids = self.fresh_ids(op[2])
                out["ids"] = ids
                name = f"pb_{ids[0]}.parquet"
                tbl = pa.Table.from_pylist(tables.rows(ids), schema=pa.schema(
                    [pa.field("id", pa.int64(), nullable=False), pa.field("v", pa.string())]))
                import io as _io
                buf = _io.BytesIO()
                pq.write_table(tbl, buf)
                t.storage.write_file(f"data/{name}", buf.getvalue())
                spelled = {"lead": f"/data/{name}", "nolead": f"data/{name}", "double": f"/data//{name}",
                           "dot": f"/data/./{name}", "updown": f"data/sub/../{name}", "dotlead": f"./data/{name}"}[op[1]]
                if op[1] == "updown":
                    t.storage.makedirs("data/sub")
                out["spelled"] = spelled
                with t.new_transaction() as tx:
                    tx.append_files([DataFile(file_path=spelled, file_format=FileFormat.PARQUET, partition_values={},
                                              record_count=len(ids), file_size_in_bytes=len(buf.getvalue()))])
                    tx.commit()
            elif kind == "readd":
                # re-append (append_files) a data file that an OLDER retained snapshot still references but
                # the current one does not; mode: ok | fail (pointer write fails) | abandon (exception in the block)
                from datashard.data_structures import DataFile, FileFormat

                tv = self.last_view
                cur = tv.current() if tv else None
                curfiles = set(cur.files) if cur is not None else set()
                cand = None
                for sv in (tv.snapshots if tv else []):
                    for e in sv.entries:
                        fp = reader.norm(e["data_file"]["file_path"])
                        if fp not in curfiles and self.blobs().get(fp) is not None:
                            cand = e["data_file"]
                            break
                    if cand:
                        break
                if cand is None:
                    out["skipped"] = True
                else:
                    out["readded"] = reader.norm(cand["file_path"])
                    df = DataFile(file_path="/" + reader.norm(cand["file_path"]), file_format=FileFormat.PARQUET,
                                  partition_values={}, record_count=cand["record_count"],
                                  file_size_in_bytes=cand["file_size_in_bytes"], checksum=cand.get("checksum"))
                    mode = op[1]
                    if mode == "fail":
                        out["expect_fail"] = True
                        plan = FaultPlan(0, lambda: OSError("injected: pointer write failed"),
                                         match=lambda o: o.name.endswith("write_file") and o.path == "metadata.version-hint.text"
                                         or o.name.endswith("write_file_cas"))
                        self.ip.before.append(plan.hook)
                    try:
                        with t.new_transaction() as tx:
                            tx.append_files([df])
                            if mode == "abandon":
                                raise KeyError("caller bails out of the with-block")
                            tx.commit()
                    finally:
                        if mode == "fail":
                            self.ip.before.remove(plan.hook)
            elif kind == "reopen":
                self.table = self.ds.load_table(self.table_path)
            else:
                raise ValueError(f"unknown op {op}")
        except Exception as e:  # library outcome
            out["ok"] = False
            out["exc"] = f"{type(e).__name__}: {str(e)[:200]}"
        return out

    # in-flight markers of transactions the harness holds open must keep looking *live*: the
    # library treats a marker older than its abandonment timeout (24 h) as an abandoned
    # transaction by documented design, so markers are never aged beyond this cap
    MARKER_AGE_CAP = 80000.0

    def age_all(self, seconds: float) -> None:
        if self.backend == "local":
            tables.age_tree(self.root, seconds)
            if seconds > self.MARKER_AGE_CAP:
                tables.age_tree(self.root, self.MARKER_AGE_CAP, only=["metadata/inflight"])
        else:
            pre = self.s3env.full_prefix(self.table_path)
            for (b, k) in list(self.store.objects):
                if b == self.s3env.bucket and k.startswith(pre):
                    marker = "/metadata/inflight/" in "/" + k
                    self.store.set_age(b, k, min(seconds, self.MARKER_AGE_CAP) if marker else seconds)

    def inflight_files(self) -> Set[str]:
        out: Set[str] = set()
        for tx, _ids in self.open_txs:
            out.update(reader.norm(p) for p in tx._written_files)
            out.update(getattr(tx, "_verif_prebuilt", []))        # pre-built files queued by append_files()
        return out


def gen_ops(rng: random.Random, n: int, alphabet: List[str]) -> List[Tuple[Any, ...]]:
    ops: List[Tuple[Any, ...]] = []
    for _ in range(n):
        k = rng.choice(alphabet)
        if k == "append":
            ops.append(("append", rng.randint(1, 3)))
        elif k == "multi":
            ops.append(("multi", [rng.randint(1, 2) for _ in range(rng.randint(2, 3))]))
        elif k == "delete":
            ops.append(("delete", rng.randint(1, 2), rng.choice(["lead", "nolead", "flip"])))
        elif k == "delete_append":
            ops.append(("delete_append", rng.randint(1, 2)))
        elif k == "expire":
            ops.append(("expire", rng.choice([0, 1, 2, "all"]), rng.choice([0, 1]),
                        rng.choice(["plain", "plain", "with_append"])))
        elif k == "delsnap":
            ops.append(("delsnap", rng.choice(["current", 0, 1, 2, 3])))
        elif k == "retention":
            ops.append(("prop", "datashard.snapshot.retention-count",
                        rng.choice(["1", "2", "3", "0", "x", None])))
        elif k == "prevmax":
            ops.append(("prop", "write.metadata.previous-versions-max",
                        rng.choice(["1", "2", "5", "0", "-3", "abc", None])))
        elif k == "fail_commit":
            ops.append(("fail_commit", 1))
        elif k == "gc":
            ops.append(("gc", rng.choice([0, 3600000, 10**9])))
        elif k == "gc0":
            ops.append(("gc", 0))
        elif k == "age":
            ops.append(("age", rng.choice([10, 7200, 100000])))
        elif k == "open_tx":
            ops.append(("open_tx", rng.randint(1, 2)))
        elif k == "open_tx_sub":
            ops.append(("open_tx_sub",))
        elif k == "readopt_dead":
            ops.append(("readopt_dead",))
        elif k == "commit_tx":
            ops.append(("commit_tx",))
        elif k == "rollback_tx":
            ops.append(("rollback_tx",))
        elif k == "readd":
            ops.append(("readd", rng.choice(["ok", "fail", "abandon"])))
        elif k == "prebuilt":
            ops.append(("prebuilt", rng.choice(["lead", "nolead", "double", "dot", "updown", "dotlead"]), rng.randint(1, 2)))
        elif k == "reopen":
            ops.append(("reopen",))
        elif k == "raced":
            ops.append(("raced", rng.randint(1, 2)))
        else:
            raise ValueError(k)
    return ops
