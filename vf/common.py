"""Shared plumbing for all checks: repo import path, scratch dirs, sharded
execution in subprocesses, evidence writing, known-finding matching, verdicts.

A check is a subclass of `Check` that yields JSON-serialisable *cases* and runs
one case at a time against the real library.  The framework enumerates the
cases once in the parent (to count them), splits them over worker subprocesses
(`--worker k/n`), merges the measured counts and writes the evidence file.
"""
from __future__ import annotations

import argparse
import hashlib
import json
import os
import random
import shutil
import subprocess
import sys
import tempfile
import time
import traceback
from pathlib import Path
from typing import Any, Dict, Iterable, List, Optional

VERIF = Path(__file__).resolve().parents[1]
REPO = Path(os.environ.get("VERIF_REPO", "/repo"))
SRC = REPO / "src"

EXIT_HELD, EXIT_VIOLATION, EXIT_INCONCLUSIVE = 0, 1, 2


def setup_repo_path() -> None:
    """Put ${VERIF_REPO:-/repo}/src first on sys.path and make sure that is the
    datashard that gets imported (checks always run the current working tree)."""
    src = str(SRC)
    if sys.path[0] != src:
        sys.path.insert(0, src)
    os.environ.setdefault("DATASHARD_STORAGE_TYPE", "local")
    os.environ["DATASHARD_LOG_LEVEL"] = "CRITICAL"
    import logging

    logging.disable(logging.CRITICAL)
    import datashard  # noqa

    got = Path(datashard.__file__).resolve()
    if not str(got).startswith(str(SRC.resolve())):
        raise RuntimeError(f"datashard imported from {got}, expected under {SRC}")


def scratch_root() -> Path:
    for cand in ("/dev/shm", "/var/tmp"):
        if os.path.isdir(cand) and os.access(cand, os.W_OK):
            return Path(cand)
    return Path(tempfile.gettempdir())


class Scratch:
    """Context manager: a private scratch directory, removed on exit."""

    def __init__(self, tag: str = "case"):
        self.tag = tag
        self.path: Optional[Path] = None

    def __enter__(self) -> Path:
        self.path = Path(tempfile.mkdtemp(prefix=f"verif-{self.tag}-", dir=str(scratch_root())))
        return self.path

    def __exit__(self, *a: Any) -> None:
        if self.path is not None:
            shutil.rmtree(self.path, ignore_errors=True)


def seed_from_env() -> int:
    try:
        return int(os.environ.get("VERIF_SEED", "0"))
    except ValueError:
        return 0


def stable_hash(obj: Any) -> str:
    return hashlib.sha1(json.dumps(obj, sort_keys=True, default=repr).encode()).hexdigest()[:16]


def jsonable(o: Any) -> Any:
    """Best-effort conversion of a witness into JSON."""
    try:
        json.dumps(o)
        return o
    except Exception:
        pass
    if isinstance(o, dict):
        return {str(k): jsonable(v) for k, v in o.items()}
    if isinstance(o, (list, tuple, set, frozenset)):
        return [jsonable(v) for v in o]
    return repr(o)


# --------------------------------------------------------------------------
# known findings
# --------------------------------------------------------------------------

class KnownFindings:
    def __init__(self) -> None:
        p = VERIF / "known_findings.json"
        self.findings: Dict[str, Dict[str, Any]] = {}
        self.fixed: List[Dict[str, Any]] = []
        if p.exists():
            data = json.loads(p.read_text())
            for f in data.get("findings", []):
                self.findings[f"{f['property']}:{f['signature']}"] = f
            self.fixed = data.get("fixed", [])

    def lookup(self, prop: str, sig: str) -> Optional[Dict[str, Any]]:
        return self.findings.get(f"{prop}:{sig}")


# --------------------------------------------------------------------------
# result of one case
# --------------------------------------------------------------------------

class CaseResult:
    """What one case observed.  `keys` are identifiers of distinct non-trivial
    executions (by the check's stated rule); `stats` are monitor counters."""

    def __init__(self) -> None:
        self.evals = 0
        self.keys: List[str] = []
        self.viol: List[Dict[str, Any]] = []
        self.stats: Dict[str, int] = {}
        self.samples: List[Any] = []
        self.inconclusive: List[str] = []

    def count(self, name: str, n: int = 1) -> None:
        self.stats[name] = self.stats.get(name, 0) + n

    def key(self, k: Any) -> None:
        self.keys.append(k if isinstance(k, str) else stable_hash(k))

    def violation(self, sig: str, msg: str, witness: Any = None) -> None:
        self.viol.append({"sig": sig, "msg": msg, "witness": jsonable(witness)})

    def sample(self, s: Any) -> None:
        if len(self.samples) < 3:
            self.samples.append(jsonable(s))

    def to_json(self) -> Dict[str, Any]:
        return {
            "evals": self.evals, "keys": self.keys, "viol": self.viol,
            "stats": self.stats, "samples": self.samples, "inconclusive": self.inconclusive,
        }


class Check:
    pid = "C00"
    level = "exploration"
    rule = ""
    assumptions: List[str] = []
    # counters that must be > 0 (or >= n) for the run to be conclusive
    require: Dict[str, int] = {}
    worker_timeout_s = {"quick": 900, "thorough": 5400}
    max_workers = 16
    exhaustive = False

    def gen_cases(self, tier: str, seed: int) -> Iterable[Any]:
        raise NotImplementedError

    def run_case(self, case: Any, res: CaseResult, tier: str) -> None:
        raise NotImplementedError

    def extra_coverage(self, tier: str, stats: Dict[str, int]) -> Dict[str, Any]:
        return {}

    # ---- driver ----------------------------------------------------------
    def main(self, argv: Optional[List[str]] = None) -> int:
        ap = argparse.ArgumentParser()
        ap.add_argument("--tier", default=os.environ.get("VERIF_TIER", "quick"),
                        choices=["quick", "thorough"])
        ap.add_argument("--worker", default=None)
        ap.add_argument("--out", default=None)
        ap.add_argument("--replay", default=None)
        ap.add_argument("--jobs", type=int, default=int(os.environ.get("VERIF_JOBS", "0")))
        ap.add_argument("--limit", type=int, default=0)
        args = ap.parse_args(argv)
        seed = seed_from_env()
        os.environ["PYTHONHASHSEED"] = os.environ.get("PYTHONHASHSEED", "0")
        if args.replay:
            return self._replay(args.replay, args.tier)
        if args.worker:
            return self._worker(args, seed)
        return self._parent(args, seed)

    def _run_one(self, case: Any, tier: str) -> CaseResult:
        res = CaseResult()
        # environment diversity: a case may ask for a process time zone ("tz": POSIX TZ string, no tzdata needed)
        tz = case.get("tz") if isinstance(case, dict) else None
        old_tz = os.environ.get("TZ")
        if tz:
            import time as _time
            os.environ["TZ"] = tz
            _time.tzset()
        try:
            self.run_case(case, res, tier)
        except BaseException as e:  # harness failure: never a verdict
            res.inconclusive.append(
                f"harness exception in case {stable_hash(case)}: {type(e).__name__}: {e}\n"
                + traceback.format_exc()[-1500:]
            )
        finally:
            if tz:
                import time as _time
                if old_tz is None:
                    os.environ.pop("TZ", None)
                else:
                    os.environ["TZ"] = old_tz
                _time.tzset()
        if res.evals == 0:
            res.evals = 1
        return res

    def _worker(self, args: Any, seed: int) -> int:
        setup_repo_path()
        k, n = (int(x) for x in args.worker.split("/"))
        merged = CaseResult()
        merged.evals = 0
        per_case: List[Dict[str, Any]] = []
        t0 = time.time()
        for i, case in enumerate(self.gen_cases(args.tier, seed)):
            if args.limit and i >= args.limit:
                break
            if i % n != k:
                continue
            tc = time.time()
            r = self._run_one(case, args.tier)
            if os.environ.get("VERIF_TIMING"):
                sys.stderr.write(f"TIMING {time.time() - tc:.1f}s worker={k} case#{i} {json.dumps(case, default=repr)[:200]}\n")
            merged.evals += r.evals
            merged.keys.extend(r.keys)
            for v in r.viol:
                v["case"] = jsonable(case)
                merged.viol.append(v)
            for s, c in r.stats.items():
                merged.stats[s] = merged.stats.get(s, 0) + c
            for s in r.samples:
                if len(merged.samples) < 3:
                    merged.samples.append(s)
            merged.inconclusive.extend(r.inconclusive)
        out = merged.to_json()
        out["wall_s"] = time.time() - t0
        Path(args.out).write_text(json.dumps(out))
        # skip interpreter teardown: pyarrow's C++ threads occasionally abort()
        # at exit ("terminate called without an active exception") after all
        # work is done, which would make a finished worker look failed
        sys.stdout.flush()
        sys.stderr.flush()
        os._exit(0)

    @staticmethod
    def _sweep_stale_scratch(max_age_s: float = 6 * 3600) -> None:
        """scratch directories of workers that were killed (watchdog, Ctrl-C) would otherwise pile up"""
        root = scratch_root()
        now = time.time()
        try:
            for name in os.listdir(root):
                if name.startswith("verif-"):
                    p = os.path.join(root, name)
                    try:
                        if now - os.path.getmtime(p) > max_age_s:
                            shutil.rmtree(p, ignore_errors=True)
                    except OSError:
                        pass
        except OSError:
            pass

    def _parent(self, args: Any, seed: int) -> int:
        t0 = time.time()
        self._sweep_stale_scratch()
        setup_repo_path()
        tier = args.tier
        ncases = 0
        for i, _ in enumerate(self.gen_cases(tier, seed)):
            if args.limit and i >= args.limit:
                break
            ncases += 1
        jobs = args.jobs or min(self.max_workers, os.cpu_count() or 4, max(1, ncases))
        merged = CaseResult()
        merged.evals = 0
        with Scratch(f"{self.pid}-out") as outdir:
            procs = []
            mod = type(self).__module__
            if mod == "__main__":
                mod = "checks." + Path(sys.modules["__main__"].__file__).stem
            for k in range(jobs):
                out = outdir / f"w{k}.json"
                cmd = [sys.executable, "-m", mod, "--tier", tier, "--worker", f"{k}/{jobs}",
                       "--out", str(out)]
                if args.limit:
                    cmd += ["--limit", str(args.limit)]
                env = dict(os.environ, VERIF_SEED=str(seed), PYTHONHASHSEED="0")
                procs.append((k, out, subprocess.Popen(cmd, cwd=str(VERIF), env=env,
                                                       stdout=subprocess.PIPE, stderr=subprocess.STDOUT)))
            deadline = time.time() + self.worker_timeout_s[tier]
            for k, out, p in procs:
                try:
                    so, _ = p.communicate(timeout=max(1, deadline - time.time()))
                except subprocess.TimeoutExpired:
                    p.kill()
                    so, _ = p.communicate()
                    merged.inconclusive.append(f"worker {k} hit the wall-clock watchdog")
                    continue
                if os.environ.get("VERIF_TIMING"):
                    for line in so.decode(errors="replace").splitlines():
                        if line.startswith("TIMING"):
                            print(line)
                if p.returncode != 0 or not out.exists():
                    merged.inconclusive.append(
                        f"worker {k} exited {p.returncode}: {so.decode(errors='replace')[-2000:]}")
                    continue
                r = json.loads(out.read_text())
                merged.evals += r["evals"]
                merged.keys.extend(r["keys"])
                merged.viol.extend(r["viol"])
                for s, c in r["stats"].items():
                    merged.stats[s] = merged.stats.get(s, 0) + c
                for s in r["samples"]:
                    if len(merged.samples) < 5:
                        merged.samples.append(s)
                merged.inconclusive.extend(r["inconclusive"])
        return self._finish(merged, tier, seed, ncases, time.time() - t0)

    def _finish(self, m: CaseResult, tier: str, seed: int, ncases: int, wall: float) -> int:
        kf = KnownFindings()
        known_hit: Dict[str, int] = {}
        unknown: List[Dict[str, Any]] = []
        for v in m.viol:
            if kf.lookup(self.pid, v["sig"]):
                known_hit[v["sig"]] = known_hit.get(v["sig"], 0) + 1
            else:
                unknown.append(v)
        for name, need in self.require.items():
            if m.stats.get(name, 0) < need:
                m.inconclusive.append(
                    f"monitor counter '{name}'={m.stats.get(name, 0)} < required {need}")
        distinct = len(set(m.keys))
        if distinct < 2:
            m.inconclusive.append(f"only {distinct} distinct non-trivial executions observed")
        coverage: Dict[str, Any] = {
            "evaluations": m.evals,
            "distinct_nontrivial": distinct,
            "rule": self.rule,
            "samples": m.samples or [{"note": "no sample recorded"}],
            "cases": ncases,
            "monitor_counters": dict(sorted(m.stats.items())),
            "known_findings_observed": known_hit,
            "exhaustive": bool(self.exhaustive),
        }
        coverage.update(self.extra_coverage(tier, m.stats))
        ev = {
            "property_id": self.pid, "tier": tier, "seed": seed, "level": self.level,
            "coverage": coverage, "assumptions": list(self.assumptions),
            "wall_s": round(wall, 2), "violations": len(unknown),
        }
        if m.inconclusive:
            ev["coverage"]["inconclusive_reasons"] = m.inconclusive[:10]
        # self-tests against mutated scratch copies redirect their evidence so that the committed
        # evidence always comes from a run against /repo itself
        evdir = Path(os.environ["VERIF_EVIDENCE_DIR"]) if os.environ.get("VERIF_EVIDENCE_DIR") else VERIF / "evidence"
        evdir.mkdir(parents=True, exist_ok=True)
        (evdir / f"{self.pid}.json").write_text(json.dumps(ev, indent=1, default=repr) + "\n")

        for sig, n in sorted(known_hit.items()):
            f = kf.lookup(self.pid, sig)
            print(f"KNOWN-FINDING: property={self.pid} {sig}: {f['description']} (observed {n}x)")
        rc = EXIT_HELD
        if unknown:
            rdir = Path(os.environ["VERIF_REPLAY_DIR"]) if os.environ.get("VERIF_REPLAY_DIR") else VERIF / "replay"
            rdir.mkdir(parents=True, exist_ok=True)
            seen = set()
            for v in unknown:
                if v["sig"] in seen:
                    continue
                seen.add(v["sig"])
                rp = rdir / f"{self.pid}-{stable_hash([v['sig'], v.get('case')])}.json"
                rp.write_text(json.dumps({"property": self.pid, "seed": seed, "tier": tier,
                                          "signature": v["sig"], "message": v["msg"],
                                          "case": v.get("case"), "witness": v.get("witness")},
                                         indent=1, default=repr))
                print(f"VIOLATION property={self.pid} replay={rp}")
                print(f"  signature={v['sig']}  {v['msg'][:400]}")
            rc = EXIT_VIOLATION
        elif m.inconclusive:
            for r in m.inconclusive[:5]:
                print(f"INCONCLUSIVE property={self.pid} reason={r[:600]}")
            rc = EXIT_INCONCLUSIVE
        print(f"{self.pid} {tier} seed={seed}: {m.evals} executions, {distinct} distinct non-trivial, "
              f"{len(unknown)} violations, {sum(known_hit.values())} known-finding hits, "
              f"{wall:.1f}s; counters={dict(sorted(m.stats.items()))}")
        return rc

    def _replay(self, path: str, tier: str) -> int:
        setup_repo_path()
        data = json.loads(Path(path).read_text())
        case = data["case"]
        wit = data.get("witness") or {}
        if isinstance(case, dict) and isinstance(wit, dict) and wit.get("schedule") is not None:
            # scheduled checks: re-run exactly the witness schedule instead of re-exploring the shard
            case = dict(case, _replay_schedule=wit["schedule"])
        r = self._run_one(case, data.get("tier", tier))
        for v in r.viol:
            print(f"VIOLATION property={self.pid} replay={path}")
            print(f"  signature={v['sig']} {v['msg']}")
            print(json.dumps(v["witness"], indent=1, default=repr)[:4000])
        for i in r.inconclusive:
            print("INCONCLUSIVE", i)
        print("stats", r.stats)
        return EXIT_VIOLATION if r.viol else (EXIT_INCONCLUSIVE if r.inconclusive else EXIT_HELD)


def rng_for(seed: int, *salt: Any) -> random.Random:
    return random.Random(f"{seed}:{':'.join(map(str, salt))}")
