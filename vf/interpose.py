"""E3 - run-time interposition on the library's storage operations (L1), on
selected os-level calls made by datashard.storage_backend / data_operations /
file_lock (L2-os) and on clocks.  Nothing in /repo is edited: class attributes
and module globals are replaced inside the harness process only.
"""
from __future__ import annotations

import threading
import types
from typing import Any, Callable, Dict, List, Optional, Tuple


class Op:
    __slots__ = ("name", "path", "obj", "args", "kwargs", "seq", "depth", "result", "exc", "phase")

    def __init__(self, name: str, path: Optional[str], obj: Any, args: Tuple[Any, ...],
                 kwargs: Dict[str, Any], seq: int, depth: int):
        self.name = name
        self.path = path
        self.obj = obj
        self.args = args
        self.kwargs = kwargs
        self.seq = seq
        self.depth = depth
        self.result: Any = None
        self.exc: Optional[BaseException] = None
        self.phase = "before"

    def brief(self) -> str:
        return f"{self.name}({self.path})" if self.path is not None else self.name


L1_STORAGE = ["read_file", "open_file", "open_seekable", "write_file", "exists", "list_files",
              "delete_file", "makedirs", "get_size", "get_modified_time"]
L1_S3_EXTRA = ["read_file_with_etag", "write_file_cas"]


class Interposer:
    """Wraps L1 methods; `before`/`after` hooks see every call (in the calling
    thread).  A hook may raise to inject a fault, or park the thread (scheduler
    gate)."""

    def __init__(self) -> None:
        self.before: List[Callable[[Op], None]] = []
        self.after: List[Callable[[Op], None]] = []
        self._orig: List[Tuple[Any, str, Any]] = []
        self._seq = 0
        self._tl = threading.local()
        self._seq_lock = threading.Lock()
        self.installed = False

    def _wrap(self, cls: Any, meth: str, label: str, path_arg: bool = True) -> None:
        orig = cls.__dict__.get(meth)
        if orig is None:
            return
        ip = self

        def wrapper(self_: Any, *args: Any, **kwargs: Any) -> Any:
            if not ip.before and not ip.after:
                return orig(self_, *args, **kwargs)
            depth = getattr(ip._tl, "depth", 0)
            with ip._seq_lock:
                ip._seq += 1
                seq = ip._seq
            path = None
            if path_arg and args and isinstance(args[0], str):
                path = args[0]
            op = Op(label, path, self_, args, kwargs, seq, depth)
            ip._tl.depth = depth + 1
            try:
                for h in list(ip.before):
                    h(op)
                try:
                    op.result = orig(self_, *args, **kwargs)
                except BaseException as e:
                    op.exc = e
                    op.phase = "after"
                    for h in list(ip.after):
                        h(op)
                    raise
                op.phase = "after"
                for h in list(ip.after):
                    h(op)
                return op.result
            finally:
                ip._tl.depth = depth

        wrapper.__name__ = meth
        wrapper.__wrapped__ = orig  # type: ignore[attr-defined]
        self._orig.append((cls, meth, orig))
        setattr(cls, meth, wrapper)

    def install(self, data_ops: bool = True, locks: bool = True) -> "Interposer":
        if self.installed:
            return self
        from datashard import data_operations, file_lock, lock_provider, storage_backend

        for m in L1_STORAGE:
            self._wrap(storage_backend.LocalStorageBackend, m, f"local.{m}")
            self._wrap(storage_backend.S3StorageBackend, m, f"s3.{m}")
        for m in L1_S3_EXTRA:
            self._wrap(storage_backend.S3StorageBackend, m, f"s3.{m}")
        if data_ops:
            self._wrap(data_operations.DataFileManager, "write_data_file", "data.write_data_file", False)
            self._wrap(data_operations.DataFileManager, "open_parquet_source", "data.open_parquet_source")
        if locks:
            self._wrap(file_lock.FileLock, "_try_acquire_once", "flock.try", False)
            self._wrap(file_lock.FileLock, "release", "flock.release", False)
            for cls in (lock_provider.S3LockProvider, lock_provider.S3PollingLockProvider,
                        lock_provider.S3LockProviderBase):
                for m in ("acquire", "release", "is_held"):
                    self._wrap(cls, m, f"s3lock.{m}", False)
        self.installed = True
        return self

    def uninstall(self) -> None:
        for cls, meth, orig in reversed(self._orig):
            setattr(cls, meth, orig)
        self._orig = []
        self.installed = False
        self.before = []
        self.after = []

    def __enter__(self) -> "Interposer":
        return self.install()

    def __exit__(self, *a: Any) -> None:
        self.uninstall()


# --------------------------------------------------------------------------
# module-global proxies (os, time, datetime)
# --------------------------------------------------------------------------

class ModuleProxy(types.ModuleType):
    """Stands in for a module referenced as a global of a datashard module;
    selected attributes are overridden, everything else delegates."""

    def __init__(self, real: Any, overrides: Dict[str, Any]):
        super().__init__(real.__name__)
        object.__setattr__(self, "_real", real)
        object.__setattr__(self, "_over", overrides)

    def __getattr__(self, name: str) -> Any:
        over = object.__getattribute__(self, "_over")
        if name in over:
            return over[name]
        return getattr(object.__getattribute__(self, "_real"), name)


class GlobalPatch:
    """Replace `module.attr` for the duration of a with-block."""

    def __init__(self) -> None:
        self._saved: List[Tuple[Any, str, Any, bool]] = []

    def set(self, mod: Any, attr: str, value: Any) -> None:
        had = hasattr(mod, attr)
        self._saved.append((mod, attr, getattr(mod, attr, None), had))
        setattr(mod, attr, value)

    def restore(self) -> None:
        for mod, attr, val, had in reversed(self._saved):
            if had:
                setattr(mod, attr, val)
            else:
                try:
                    delattr(mod, attr)
                except AttributeError:
                    pass
        self._saved = []

    def __enter__(self) -> "GlobalPatch":
        return self

    def __exit__(self, *a: Any) -> None:
        self.restore()


def make_clock_class(now_fn: Callable[[], float]) -> Any:
    """A datetime subclass whose now() is driven by now_fn (seconds since epoch)."""
    import datetime as _dt

    class ControlledDateTime(_dt.datetime):
        @classmethod
        def now(cls, tz: Any = None) -> Any:  # type: ignore[override]
            t = now_fn()
            return _dt.datetime.fromtimestamp(t, tz)

    return ControlledDateTime


DATETIME_MODULES = ["metadata_manager", "snapshot_manager", "file_manager", "data_structures"]


def patch_datetime(gp: GlobalPatch, now_fn: Callable[[], float]) -> None:
    """Frozen / coarse / arbitrary clocks for every `datetime.now()` the
    metadata plane uses (timestamps, last_updated_ms, manifest names)."""
    import importlib

    cls = make_clock_class(now_fn)
    for m in DATETIME_MODULES:
        mod = importlib.import_module(f"datashard.{m}")
        if hasattr(mod, "datetime"):
            gp.set(mod, "datetime", cls)


class FaultPlan:
    """Raise `exc_factory()` at the n-th L1 op (0-based) matching `match`."""

    def __init__(self, index: int, exc_factory: Callable[[], BaseException],
                 match: Optional[Callable[[Op], bool]] = None, after: bool = False,
                 persistent: bool = False):
        self.index = index
        self.exc_factory = exc_factory
        self.match = match or (lambda op: True)
        self.after = after
        self.persistent = persistent
        self.count = -1
        self.fired: List[str] = []
        self.armed = True

    def hook(self, op: Op) -> None:
        if not self.armed:
            return
        if op.phase == "before":
            if not self.match(op):
                return
            self.count += 1
            hit = self.count == self.index or (self.persistent and self.count > self.index)
            if not hit:
                return
            if self.after:
                op_marks = getattr(op.obj, "_verif_after", None)
                if op_marks is None:
                    try:
                        op.obj._verif_after = set()
                    except Exception:
                        pass
                try:
                    op.obj._verif_after.add(op.seq)
                except Exception:
                    pass
                return
            self.fired.append(op.brief())
            raise self.exc_factory()
        else:
            marks = getattr(op.obj, "_verif_after", None)
            if marks and op.seq in marks:
                marks.discard(op.seq)
                if op.exc is None:
                    self.fired.append(op.brief() + " [after effect]")
                    raise self.exc_factory()


class OpLog:
    def __init__(self) -> None:
        self.ops: List[Tuple[str, Optional[str], int]] = []

    def hook(self, op: Op) -> None:
        if op.phase == "before":
            self.ops.append((op.name, op.path, op.depth))
