"""E2 - in-memory, strongly consistent S3 double with conditional writes.

Installed by patching `boto3.session.Session.client` (so the real
S3StorageBackend / S3LockProvider code runs unchanged against it) and
`pyarrow.fs.S3FileSystem` (parquet writes go through a PyFileSystem handler
into the same store).  LastModified lives on a virtual clock: it is reported as
`real_now - virtual_age`, so the library's own `datetime.now(utc) - LastModified`
and `time.time() - mtime` arithmetic sees virtual ages without being patched.
"""
from __future__ import annotations

import io
import threading
import time as _time
from datetime import datetime, timezone
from typing import Any, Callable, Dict, List, Optional, Tuple

import botocore.exceptions

_real_time = _time.time
_RealDateTime = datetime


class VClock:
    """Purely logical clock: starts at the real time of its creation and moves
    only when the harness advances it (never with wall time), so timeouts,
    leases and ages measured on it are exact whatever the machine load."""

    def __init__(self) -> None:
        self.t0 = _real_time()
        self.offset = 0.0

    def now(self) -> float:
        return self.t0 + self.offset

    def advance(self, d: float) -> None:
        if d > 0:
            self.offset += d


def client_error(code: str, op: str, status: int = 400, msg: str = "") -> botocore.exceptions.ClientError:
    return botocore.exceptions.ClientError(
        {"Error": {"Code": code, "Message": msg or code},
         "ResponseMetadata": {"HTTPStatusCode": status}}, op)


class Obj:
    __slots__ = ("body", "etag", "written_v", "gen")

    def __init__(self, body: bytes, etag: str, written_v: float, gen: int):
        self.body = body
        self.etag = etag
        self.written_v = written_v
        self.gen = gen


class Req:
    __slots__ = ("op", "bucket", "key", "kw", "n", "thread", "resp", "effect")

    def __init__(self, op: str, bucket: str, key: str, kw: Dict[str, Any], n: int):
        self.op = op
        self.bucket = bucket
        self.key = key
        self.kw = kw
        self.n = n
        self.thread = threading.current_thread().name
        self.resp: Any = None
        self.effect: Optional[str] = None

    def brief(self) -> str:
        extra = ""
        if "IfMatch" in self.kw:
            extra = " If-Match"
        if "IfNoneMatch" in self.kw:
            extra = " If-None-Match"
        if "Range" in self.kw:
            extra = " " + self.kw["Range"]
        return f"{self.op} {self.key}{extra}"


class _Body:
    def __init__(self, data: bytes):
        self._b = io.BytesIO(data)

    def read(self, n: Optional[int] = None) -> bytes:
        return self._b.read() if n is None else self._b.read(n)

    def close(self) -> None:
        pass

    def __enter__(self) -> "_Body":
        return self

    def __exit__(self, *a: Any) -> None:
        pass


class FakeS3Store:
    def __init__(self, clock: Optional[VClock] = None, page_size: int = 5, etag_mode: str = "md5"):
        # etag_mode 'md5' = what S3 does for simple PUTs: the ETag is the MD5 of the content, so rewriting
        # identical bytes does NOT change it; 'unique' = a fresh ETag on every write (some S3-compatible stores)
        self.etag_mode = etag_mode
        self.objects: Dict[Tuple[str, str], Obj] = {}
        self.clock = clock or VClock()
        self.lock = threading.RLock()
        self.gen = 0
        self.nreq = 0
        self.page_size = page_size
        self.log: List[Req] = []
        self.keep_log = True
        # hooks: before(req) may gate or raise (fault before effect);
        #        after(req) may raise (fault after effect, the effect stays)
        self.before: List[Callable[[Req], None]] = []
        self.after: List[Callable[[Req], None]] = []
        self.buckets = None  # None = every bucket exists

    # -- helpers ---------------------------------------------------------
    def _new_etag(self, body: bytes = b"") -> str:
        self.gen += 1
        if self.etag_mode == "md5":
            import hashlib

            return '"' + hashlib.md5(body).hexdigest() + '"'
        return f'"etag-{self.gen:08d}"'

    def _last_modified(self, o: Obj) -> datetime:
        # stable per object version, on the virtual time axis; S3Env makes the library's
        # `datetime.now(timezone.utc)` (function-level imports in lock_provider) and the garbage
        # collector's time.time() read the same virtual clock, so ages are virtual
        return _RealDateTime.fromtimestamp(o.written_v, tz=timezone.utc)

    def set_age(self, bucket: str, key: str, age_s: float) -> None:
        o = self.objects[(bucket, key)]
        o.written_v = self.clock.now() - age_s

    def _begin(self, op: str, kw: Dict[str, Any]) -> Req:
        with self.lock:
            self.nreq += 1
            req = Req(op, kw.get("Bucket", ""), kw.get("Key", kw.get("Prefix", "")), kw, self.nreq)
            if self.keep_log:
                self.log.append(req)
        for h in list(self.before):
            h(req)
        return req

    def _end(self, req: Req, resp: Any) -> Any:
        req.resp = resp
        for h in list(self.after):
            h(req)
        return resp

    # -- operations ------------------------------------------------------
    def put_object(self, **kw: Any) -> Dict[str, Any]:
        req = self._begin("PUT", kw)
        body = kw.get("Body", b"")
        if hasattr(body, "read"):
            body = body.read()
        if isinstance(body, str):
            body = body.encode()
        k = (kw["Bucket"], kw["Key"])
        with self.lock:
            cur = self.objects.get(k)
            if kw.get("IfNoneMatch") == "*" and cur is not None:
                req.effect = "412"
                raise client_error("PreconditionFailed", "PutObject", 412)
            if "IfMatch" in kw:
                if cur is None:
                    req.effect = "404"
                    raise client_error("NoSuchKey", "PutObject", 404)
                if cur.etag != kw["IfMatch"]:
                    req.effect = "412"
                    raise client_error("PreconditionFailed", "PutObject", 412)
            etag = self._new_etag(bytes(body))
            self.objects[k] = Obj(bytes(body), etag, self.clock.now(), self.gen)
            req.effect = "written"
        return self._end(req, {"ETag": etag, "ResponseMetadata": {"HTTPStatusCode": 200}})

    def get_object(self, **kw: Any) -> Dict[str, Any]:
        req = self._begin("GET", kw)
        k = (kw["Bucket"], kw["Key"])
        with self.lock:
            o = self.objects.get(k)
            if o is None:
                req.effect = "404"
                raise client_error("NoSuchKey", "GetObject", 404)
            data = o.body
            etag, lm = o.etag, self._last_modified(o)
        rng = kw.get("Range")
        total = len(data)
        if rng:
            if not rng.startswith("bytes="):
                raise client_error("InvalidArgument", "GetObject", 400)
            a, b = rng[6:].split("-", 1)
            first = int(a)
            last = int(b) if b else total - 1
            if first >= total or first < 0 or last < first:
                req.effect = "416"
                raise client_error("InvalidRange", "GetObject", 416)
            data = data[first:min(last, total - 1) + 1]
        req.effect = "read"
        return self._end(req, {"Body": _Body(data), "ETag": etag, "LastModified": lm,
                               "ContentLength": len(data),
                               "ResponseMetadata": {"HTTPStatusCode": 206 if rng else 200}})

    def head_object(self, **kw: Any) -> Dict[str, Any]:
        req = self._begin("HEAD", kw)
        k = (kw["Bucket"], kw["Key"])
        with self.lock:
            o = self.objects.get(k)
            if o is None:
                req.effect = "404"
                raise client_error("404", "HeadObject", 404, "Not Found")
            resp = {"ContentLength": len(o.body), "ETag": o.etag,
                    "LastModified": self._last_modified(o),
                    "ResponseMetadata": {"HTTPStatusCode": 200}}
        req.effect = "head"
        return self._end(req, resp)

    def delete_object(self, **kw: Any) -> Dict[str, Any]:
        req = self._begin("DELETE", kw)
        k = (kw["Bucket"], kw["Key"])
        with self.lock:
            existed = self.objects.pop(k, None) is not None
        req.effect = "deleted" if existed else "noop"
        return self._end(req, {"ResponseMetadata": {"HTTPStatusCode": 204}})

    def list_objects_v2(self, **kw: Any) -> Dict[str, Any]:
        req = self._begin("LIST", kw)
        bucket, prefix = kw["Bucket"], kw.get("Prefix", "")
        maxk = min(int(kw.get("MaxKeys", self.page_size)), self.page_size)
        start = kw.get("ContinuationToken") or kw.get("StartAfter") or ""
        with self.lock:
            keys = sorted(k for (b, k) in self.objects if b == bucket and k.startswith(prefix) and k > start)
            page = keys[:maxk]
            contents = []
            for k in page:
                o = self.objects[(bucket, k)]
                contents.append({"Key": k, "Size": len(o.body), "ETag": o.etag,
                                 "LastModified": self._last_modified(o)})
        resp: Dict[str, Any] = {"KeyCount": len(contents), "IsTruncated": len(keys) > maxk,
                                "ResponseMetadata": {"HTTPStatusCode": 200}}
        if contents:
            resp["Contents"] = contents
        if len(keys) > maxk:
            resp["NextContinuationToken"] = page[-1]
        req.effect = "listed"
        return self._end(req, resp)


class _Paginator:
    def __init__(self, client: "FakeS3Client"):
        self.c = client

    def paginate(self, **kw: Any) -> Any:
        token = None
        while True:
            args = dict(kw)
            if token:
                args["ContinuationToken"] = token
            page = self.c.list_objects_v2(**args)
            yield page
            if not page.get("IsTruncated"):
                return
            token = page["NextContinuationToken"]


class FakeS3Client:
    def __init__(self, store: FakeS3Store):
        self.store = store

    def put_object(self, **kw: Any) -> Any:
        return self.store.put_object(**kw)

    def get_object(self, **kw: Any) -> Any:
        return self.store.get_object(**kw)

    def head_object(self, **kw: Any) -> Any:
        return self.store.head_object(**kw)

    def delete_object(self, **kw: Any) -> Any:
        return self.store.delete_object(**kw)

    def list_objects_v2(self, **kw: Any) -> Any:
        return self.store.list_objects_v2(**kw)

    def get_paginator(self, name: str) -> _Paginator:
        assert name == "list_objects_v2"
        return _Paginator(self)


# --------------------------------------------------------------------------
# pyarrow filesystem writing into the same store
# --------------------------------------------------------------------------

def _make_pyfs(store: FakeS3Store) -> Any:
    import pyarrow as pa
    import pyarrow.fs as pafs

    class _Sink(io.BytesIO):
        def __init__(self, bucket: str, key: str):
            super().__init__()
            self._bk = (bucket, key)
            self._done = False

        def close(self) -> None:
            if not self._done:
                self._done = True
                store.put_object(Bucket=self._bk[0], Key=self._bk[1], Body=self.getvalue())
            super().close()

    def split(path: str) -> Tuple[str, str]:
        path = path.lstrip("/")
        b, _, k = path.partition("/")
        return b, k

    class Handler(pafs.FileSystemHandler):
        def get_type_name(self) -> str:
            return "fakes3"

        def __eq__(self, other: Any) -> bool:
            return isinstance(other, Handler)

        def __ne__(self, other: Any) -> bool:
            return not isinstance(other, Handler)

        def normalize_path(self, path: str) -> str:
            return path

        def _info(self, path: str) -> Any:
            b, k = split(path)
            o = store.objects.get((b, k))
            if o is not None:
                return pafs.FileInfo(path, pafs.FileType.File, size=len(o.body))
            pre = k.rstrip("/") + "/"
            if any(bb == b and kk.startswith(pre) for (bb, kk) in store.objects):
                return pafs.FileInfo(path, pafs.FileType.Directory)
            return pafs.FileInfo(path, pafs.FileType.NotFound)

        def get_file_info(self, paths: List[str]) -> List[Any]:
            return [self._info(p) for p in paths]

        def get_file_info_selector(self, sel: Any) -> List[Any]:
            b, k = split(sel.base_dir)
            pre = k.rstrip("/") + "/"
            return [pafs.FileInfo(f"{bb}/{kk}", pafs.FileType.File, size=len(o.body))
                    for (bb, kk), o in store.objects.items() if bb == b and kk.startswith(pre)]

        def create_dir(self, path: str, recursive: bool) -> None:
            pass

        def delete_dir(self, path: str) -> None:
            pass

        def delete_dir_contents(self, path: str, missing_dir_ok: bool = False) -> None:
            pass

        def delete_root_dir_contents(self) -> None:
            pass

        def delete_file(self, path: str) -> None:
            b, k = split(path)
            store.delete_object(Bucket=b, Key=k)

        def move(self, src: str, dest: str) -> None:
            raise NotImplementedError

        def copy_file(self, src: str, dest: str) -> None:
            raise NotImplementedError

        def open_input_stream(self, path: str) -> Any:
            b, k = split(path)
            return pa.BufferReader(store.get_object(Bucket=b, Key=k)["Body"].read())

        def open_input_file(self, path: str) -> Any:
            return self.open_input_stream(path)

        def open_output_stream(self, path: str, metadata: Any) -> Any:
            b, k = split(path)
            return pa.PythonFile(_Sink(b, k), mode="w")

        def open_append_stream(self, path: str, metadata: Any) -> Any:
            raise NotImplementedError

    return pafs.PyFileSystem(Handler())


class VirtualNow:
    """Makes the library's function-level `from datetime import datetime; datetime.now(utc)`
    (lock_provider's lease-age arithmetic) and the garbage collector's time.time() read the
    virtual clock, so that ages against the double's LastModified are virtual."""

    def __init__(self, clock: VClock):
        self.clock = clock
        self._saved: Dict[str, Any] = {}

    def __enter__(self) -> "VirtualNow":
        import datetime as _dtmod

        import datashard.garbage_collector as gcm

        clock = self.clock

        class VDateTime(_RealDateTime):
            @classmethod
            def now(cls, tz: Any = None) -> Any:  # type: ignore[override]
                return _RealDateTime.fromtimestamp(clock.now(), tz)

        self._saved["dt"] = _dtmod.datetime
        _dtmod.datetime = VDateTime  # type: ignore
        self._saved["gctime"] = gcm.time

        class _T:
            def __getattr__(self_, n: str) -> Any:
                if n == "time":
                    return clock.now
                return getattr(_time, n)

        gcm.time = _T()  # type: ignore
        return self

    def __exit__(self, *a: Any) -> None:
        import datetime as _dtmod

        import datashard.garbage_collector as gcm

        _dtmod.datetime = self._saved["dt"]  # type: ignore
        gcm.time = self._saved["gctime"]  # type: ignore


class S3Env:
    """Context manager installing the double and the DATASHARD_S3_* environment."""

    def __init__(self, store: Optional[FakeS3Store] = None, bucket: str = "bkt",
                 env_prefix: str = "", conditional: bool = True):
        self.store = store or FakeS3Store()
        self.bucket = bucket
        self.env_prefix = env_prefix
        self.conditional = conditional
        self._saved: Dict[str, Any] = {}

    def __enter__(self) -> "S3Env":
        import os

        import boto3.session
        import pyarrow.fs as pafs

        st = self.store
        self._saved["client"] = boto3.session.Session.client
        self._saved["s3fs"] = pafs.S3FileSystem
        boto3.session.Session.client = lambda self_, name, **kw: FakeS3Client(st)  # type: ignore
        pyfs = _make_pyfs(st)
        pafs.S3FileSystem = lambda **kw: pyfs  # type: ignore
        self._saved["env"] = {k: os.environ.get(k) for k in self._envs()}
        os.environ.update(self._envs())
        self._vnow = VirtualNow(st.clock)
        self._vnow.__enter__()
        return self

    def _envs(self) -> Dict[str, str]:
        return {
            "DATASHARD_STORAGE_TYPE": "s3",
            "DATASHARD_S3_BUCKET": self.bucket,
            "DATASHARD_S3_PREFIX": self.env_prefix,
            "DATASHARD_S3_ACCESS_KEY": "k", "DATASHARD_S3_SECRET_KEY": "s",
            "DATASHARD_S3_ENDPOINT": "https://fake.invalid",
            "DATASHARD_S3_USE_CONDITIONAL_WRITES": "true" if self.conditional else "false",
        }

    def __exit__(self, *a: Any) -> None:
        import os

        import boto3.session
        import pyarrow.fs as pafs

        boto3.session.Session.client = self._saved["client"]  # type: ignore
        pafs.S3FileSystem = self._saved["s3fs"]  # type: ignore
        self._vnow.__exit__()
        for k, v in self._saved["env"].items():
            if v is None:
                os.environ.pop(k, None)
            else:
                os.environ[k] = v

    def full_prefix(self, table_path: str) -> str:
        tp = table_path.strip("/")
        ep = self.env_prefix.rstrip("/")
        return "/".join(x for x in (ep, tp) if x)
