"""E6 - run a child under strace and parse the log into syscall events.

`strace -f -y` annotates every fd with its path, so writes made by pyarrow's C++
code are attributed to files as well."""
from __future__ import annotations

import os
import re
import subprocess
from typing import Any, Dict, List, Optional, Tuple

TRACE = ("openat,open,creat,write,pwrite64,writev,fsync,fdatasync,rename,renameat,renameat2,unlink,unlinkat,"
         "mkdir,mkdirat,close,ftruncate,link,linkat")

_LINE = re.compile(r"^(\d+)\s+(\w+)\((.*)\)\s+=\s+(-?\d+|\?)(.*)$")
_UNFINISHED = re.compile(r"^(\d+)\s+(\w+)\((.*)<unfinished \.\.\.>$")
_RESUMED = re.compile(r"^(\d+)\s+<\.\.\. (\w+) resumed>(.*)$")
_FD = re.compile(r"^(\d+)<([^>]*)>")
_STR = re.compile(r'"((?:[^"\\]|\\.)*)"')


def available() -> bool:
    try:
        p = subprocess.run(["strace", "-o", "/dev/null", "true"], capture_output=True, timeout=20)
        return p.returncode == 0
    except Exception:
        return False


def run(cmd: List[str], logfile: str, cwd: Optional[str] = None, strsize: int = 256, timeout: int = 600,
        env: Optional[Dict[str, str]] = None, extra: Optional[List[str]] = None) -> subprocess.CompletedProcess:
    full = ["strace", "-f", "-y", "-s", str(strsize), "-o", logfile, "-e", f"trace={TRACE}"] + (extra or []) + cmd
    return subprocess.run(full, cwd=cwd, capture_output=True, timeout=timeout, env=env)


def unescape(s: str) -> bytes:
    out = bytearray()
    i = 0
    while i < len(s):
        c = s[i]
        if c != "\\":
            out += c.encode("latin-1", "replace")
            i += 1
            continue
        i += 1
        c = s[i]
        if c in "01234567":
            j = i
            while j < len(s) and j < i + 3 and s[j] in "01234567":
                j += 1
            out.append(int(s[i:j], 8) & 0xFF)
            i = j
            continue
        if c == "x":
            out.append(int(s[i + 1:i + 3], 16))
            i += 3
            continue
        out += {"n": b"\n", "t": b"\t", "r": b"\r", "\\": b"\\", '"': b'"', "v": b"\v", "f": b"\f",
                "a": b"\a", "b": b"\b", "e": b"\x1b"}.get(c, c.encode())
        i += 1
    return bytes(out)


class Event:
    __slots__ = ("n", "pid", "call", "args", "ret", "fdpath", "paths", "data", "flags", "truncated", "raw")

    def __init__(self, n: int, pid: int, call: str, args: str, ret: int, raw: str):
        self.n = n
        self.pid = pid
        self.call = call
        self.args = args
        self.ret = ret
        self.raw = raw
        m = _FD.match(args)
        self.fdpath = m.group(2) if m else None
        strs = _STR.findall(args)
        self.paths = strs
        self.data: Optional[bytes] = None
        self.truncated = False
        self.flags = ""
        if call in ("write", "pwrite64") and strs:
            self.data = unescape(strs[0])
            self.truncated = '"...' in args
        if call in ("openat", "open", "creat"):
            parts = args.split(", ")
            self.flags = next((p for p in parts if p.startswith("O_")), "O_CREAT" if call == "creat" else "")


def parse(logfile: str) -> List[Event]:
    events: List[Event] = []
    pending: Dict[int, Tuple[str, str]] = {}
    n = 0
    with open(logfile, "r", errors="replace") as f:
        for line in f:
            line = line.rstrip("\n")
            m = _UNFINISHED.match(line)
            if m:
                pending[int(m.group(1))] = (m.group(2), m.group(3))
                continue
            m = _RESUMED.match(line)
            if m:
                pid = int(m.group(1))
                call, head = pending.pop(pid, (m.group(2), ""))
                line = f"{pid} {call}({head}{m.group(3).lstrip()}"
            m = _LINE.match(line)
            if not m:
                continue
            pid, call, args, ret = int(m.group(1)), m.group(2), m.group(3), m.group(4)
            if ret == "?":
                continue
            n += 1
            events.append(Event(n, pid, call, args, int(ret), line))
    return events
