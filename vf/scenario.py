"""Shared machinery for the scheduled (E1) checks: table templates that are
copied per execution, backends, pointer-flip logging, client-boundary events."""
from __future__ import annotations

import copy
import os
import shutil
import time
from typing import Any, Callable, Dict, List, Optional, Tuple

from . import reader, tables
from .fakes3 import FakeS3Store, S3Env, VClock
from .interpose import Interposer
from .sched import Scheduler, SchedEnv, adopt

HINT = "metadata.version-hint.text"


class Template:
    """A prepared table that can be cloned cheaply for every execution."""

    def __init__(self, backend: str, workdir: str, table_path: str = "wh/tbl"):
        self.backend = backend
        self.workdir = workdir
        self.table_path = table_path if backend == "s3" else os.path.join(workdir, "template")
        self.store: Optional[FakeS3Store] = None
        self.n = 0

    def build(self, fn: Callable[[str], None]) -> None:
        if self.backend == "s3":
            self.store = FakeS3Store()
            with S3Env(self.store):
                fn(self.table_path)
        else:
            fn(self.table_path)

    def clone(self) -> "Instance":
        self.n += 1
        if self.backend == "s3":
            st = FakeS3Store()
            for k, o in self.store.objects.items():  # type: ignore
                st.objects[k] = copy.copy(o)
            st.gen = self.store.gen  # type: ignore
            return Instance(self.backend, self.table_path, None, st)
        dst = os.path.join(self.workdir, f"run{self.n}")
        shutil.copytree(self.table_path, dst, symlinks=True)
        return Instance(self.backend, dst, dst, None)


class Instance:
    def __init__(self, backend: str, table_path: str, root: Optional[str], store: Optional[FakeS3Store]):
        self.backend = backend
        self.table_path = table_path
        self.root = root
        self.store = store
        self.env: Optional[S3Env] = None

    def __enter__(self) -> "Instance":
        if self.backend == "s3":
            self.env = S3Env(self.store)
            self.env.__enter__()
        return self

    def __exit__(self, *a: Any) -> None:
        if self.env is not None:
            self.env.__exit__(*a)
        if self.store is not None:
            # pyarrow keeps the file-system handler of finished executions alive (a C-level reference the
            # collector cannot see); the handler holds the store, the store's hooks hold the scheduler and every
            # table of the execution: long runs grew by ~160 KB per execution until the kernel killed workers.
            # Cut the chain here.
            self.store.before.clear()
            self.store.after.clear()
            self.store.objects.clear()
            self.store.log.clear()
        if self.root is not None:
            shutil.rmtree(self.root, ignore_errors=True)

    def blobs(self) -> reader.Blobs:
        if self.backend == "s3":
            return reader.Blobs.s3(self.store, "bkt", self.table_path)
        return reader.Blobs.local(self.root)  # type: ignore


class FlipLog:
    """Every successful write of the version pointer: (scheduler step, actor, target)."""

    def __init__(self, sched: Scheduler):
        self.sched = sched
        self.flips: List[Tuple[int, Optional[str], str]] = []

    def l1_after(self, op: Any) -> None:
        if op.phase == "after" and op.exc is None and op.name == "local.write_file" and op.path == HINT:
            a = self.sched.me()
            self.flips.append((self.sched.nstep, a.name if a else None, _txt(op.args[1])))

    def s3_after(self, req: Any) -> None:
        if req.op == "PUT" and req.key.endswith(HINT) and req.effect == "written":
            a = self.sched.me()
            self.flips.append((self.sched.nstep, a.name if a else None, _txt(req.kw.get("Body", b""))))


def _txt(b: Any) -> str:
    if isinstance(b, (bytes, bytearray)):
        return bytes(b).decode("utf-8", "replace").strip()
    return str(b).strip()


class ClientLog:
    """Call / return events at the client boundary (an op that never returns stays open)."""

    def __init__(self, sched: Scheduler):
        self.sched = sched
        self.events: List[Dict[str, Any]] = []

    def call(self, actor: str, op: str, **info: Any) -> Dict[str, Any]:
        ev = {"actor": actor, "op": op, "call": self.sched.nstep, "ret": None, "outcome": "open", **info}
        self.events.append(ev)
        return ev

    def done(self, ev: Dict[str, Any], outcome: str, **info: Any) -> None:
        ev["ret"] = self.sched.nstep
        ev["outcome"] = outcome
        ev.update(info)

    def wrap(self, actor: str, op: str, fn: Callable[[], Any], **info: Any) -> Callable[[], Any]:
        def run() -> Any:
            ev = self.call(actor, op, **info)
            try:
                r = fn()
            except Exception as e:
                self.done(ev, "raised", error=f"{type(e).__name__}: {str(e)[:200]}", exc_type=type(e).__name__)
                return None
            self.done(ev, "acked", result=repr(r)[:80])
            return r

        return run


def s3_weather(weather: Optional[str], store: Any, sched: Any, actor: str = "A") -> None:
    """Object-store weather on committer A's FIRST pointer PUT: '503_before' (refused, nothing applied),
    'lost_response' (applied, then a 500 reaches the client), 'applied_412' (applied; the transport's retry
    is answered 412 by A's own object).  The flip log sees what was really applied."""
    if not weather:
        return
    from vf.fakes3 import client_error
    st = {"done": False, "pending": None}

    def mine(req: Any) -> bool:
        me = sched.me()
        return req.op == "PUT" and req.key.endswith(HINT) and me is not None and me.name == actor

    def before(req: Any) -> None:
        if not st["done"] and mine(req):
            st["done"] = True
            sched.counters["weather_fired"] = sched.counters.get("weather_fired", 0) + 1
            if weather == "503_before":
                raise client_error("ServiceUnavailable", "PUT", 503)
            st["pending"] = req.n

    def after(req: Any) -> None:
        if st["pending"] == req.n:
            st["pending"] = None
            if req.effect == "written":
                if weather == "applied_412":
                    raise client_error("PreconditionFailed", "PUT", 412)
                raise client_error("RequestTimeout", "PUT", 500)

    store.before.append(before)
    store.after.append(after)

