"""Process death on object storage, for C03.

An S3 request is atomic, so the crash states of an operation are exactly the prefixes of
its request sequence.  The operation runs in its own thread against the in-memory double
and is PARKED FOREVER immediately before its k-th request: no `finally`, no `__exit__`,
no rollback and no lock release ever run - like a process that died.  Its lock object
stays behind (the heartbeat is disabled, as it would die with the process); the
survivors see it lapse when virtual time passes the lease.  Everything afterwards uses
fresh handles on the same store.
"""
from __future__ import annotations

import threading
from typing import Any, Dict, List, Optional, Tuple

from . import reader, tables
from .fakes3 import FakeS3Store, S3Env

TABLE = "wh/t3"
LEASE = 60.0


def _put(store: FakeS3Store, rel: str, body: bytes, age: float) -> None:
    key = f"{TABLE}/{rel}"
    store.put_object(Bucket="bkt", Key=key, Body=body)
    store.set_age("bkt", key, age)


def build_pre(store: FakeS3Store, scenario: str, prior: int) -> None:
    import datashard as ds

    if scenario == "create":
        return
    t = ds.create_table(TABLE, schema=tables.std_schema())
    for i in range(prior):
        t.append_records(tables.rows([10 * i + 1, 10 * i + 2]))
        store.clock.advance(0.01)
    if scenario == "gc":
        for rel in ("data/orphan_a.parquet", "metadata/manifests/orphan_m.avro", "metadata/inflight/orphan_a.parquet.inflight"):
            _put(store, rel, b"leftover", 200000)
        for k in list(store.objects):
            store.set_age(k[0], k[1], 200000)


def operation(scenario: str) -> Any:
    import datashard as ds

    if scenario == "create":
        return lambda: ds.create_table(TABLE, schema=tables.std_schema())
    t = ds.load_table(TABLE)
    seeds = sorted(t.metadata_manager.refresh().snapshots, key=lambda s: s.sequence_number or 0)
    files = tables.current_files(t)

    def op() -> None:
        if scenario == "append":
            t.append_records(tables.rows([9001, 9002]))
        elif scenario == "multi":
            with t.new_transaction() as tx:
                tx.append_data(tables.rows([9001]))
                tx.append_data(tables.rows([9002, 9003]))
                tx.commit()
        elif scenario == "delete":
            with t.new_transaction() as tx:
                tx.delete_files([files[0]])
                tx.commit()
        elif scenario == "delete_append":
            with t.new_transaction() as tx:
                tx.delete_files([files[0]])
                tx.append_data(tables.rows([9001]))
                tx.commit()
        elif scenario == "expire":
            with t.new_transaction() as tx:
                tx.expire_snapshots(seeds[-1].timestamp_ms)
                tx.commit()
        elif scenario == "delsnap_old":
            t.snapshot_manager.delete_snapshot(seeds[0].snapshot_id)
        elif scenario == "delsnap_current":
            t.snapshot_manager.delete_snapshot(seeds[-1].snapshot_id)
        elif scenario == "gc":
            from datashard.garbage_collector import GarbageCollector

            GarbageCollector(t.table_path, t.metadata_manager, t.file_manager).collect(0, 0)
        else:
            raise ValueError(scenario)

    return op


def run_until(store: FakeS3Store, op: Any, k: int) -> Dict[str, Any]:
    """Runs op in a thread; parks it before its k-th S3 request (k=-1: run to the end).
    Returns {'parked': bool, 'requests': [...], 'error': str|None}."""
    reqs: List[str] = []
    parked = threading.Event()
    done = threading.Event()
    err: Dict[str, Optional[str]] = {"e": None}
    forever = threading.Event()
    tids: Dict[str, Any] = {}

    def before(req: Any) -> None:
        if threading.current_thread() is not tids.get("t"):
            return
        idx = len(reqs)
        if idx == k:
            parked.set()
            forever.wait()          # never set: the "process" is dead
        reqs.append(req.brief())

    def body() -> None:
        try:
            op()
        except BaseException as e:  # noqa
            err["e"] = f"{type(e).__name__}: {str(e)[:200]}"
        finally:
            done.set()

    th = threading.Thread(target=body, daemon=True, name="s3crash-op")
    tids["t"] = th
    store.before.append(before)
    try:
        th.start()
        while not (parked.is_set() or done.is_set()):
            parked.wait(0.01)
    finally:
        store.before.remove(before)
    return {"parked": parked.is_set(), "requests": reqs, "error": err["e"]}


def observe(store: FakeS3Store) -> Dict[str, Any]:
    tv = reader.read_table(reader.Blobs.s3(store, "bkt", TABLE))
    if tv.meta is None:
        return {"absent": True, "error": tv.error, "pointer": tv.pointer}
    cur = tv.current()
    errs = [s.error for s in tv.snapshots if s.error]
    return {"absent": False, "pointer": tv.pointer, "uuid": tv.uuid, "nsnap": len(tv.snapshots),
            "rows": (cur.rows if cur is not None else []) if not errs else None, "errors": errs,
            "reach": tv.reachable(), "ids": sorted(s.id for s in tv.snapshots)}


def listing(store: FakeS3Store) -> List[str]:
    return reader.Blobs.s3(store, "bkt", TABLE).listing()


def age_all(store: FakeS3Store, seconds: float) -> None:
    for (b, k) in list(store.objects):
        store.set_age(b, k, seconds)
