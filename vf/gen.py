"""E5 - seeded generators shared by the input-space checks (schemas, values,
filters) plus a few helpers to build real tables from generated layouts."""
from __future__ import annotations

import datetime as dt
import math
import random
import struct
from typing import Any, Dict, List, Optional, Tuple

TYPES = ["boolean", "int", "long", "float", "double", "date", "time", "timestamp",
         "string", "uuid", "binary"]
ORDERED_TYPES = ["int", "long", "float", "double", "date", "time", "timestamp", "string"]
NAN = float("nan")


def f32(x: float) -> float:
    if math.isnan(x) or math.isinf(x):
        return x
    return struct.unpack("f", struct.pack("f", x))[0]


def value_pool(t: str) -> List[Any]:
    """Small per-type domain mixing ordinary values and boundaries."""
    if t == "boolean":
        return [True, False]
    if t == "int":
        return [0, 1, -1, 2, 7, 2**31 - 1, -2**31]
    if t == "long":
        return [0, 1, -1, 2, 10, 2**53 + 1, 2**53, -2**63, 2**63 - 1]
    if t == "float":
        return [0.0, -0.0, 0.5, -1.0, 1.0, f32(0.1), f32(16777217.0), NAN, float("inf"), float("-inf")]
    if t == "double":
        return [0.0, -0.0, 0.5, -1.0, 1.0, 0.1, 1e300, NAN, float("inf"), float("-inf"), 2.0]
    if t == "date":
        return [dt.date(1970, 1, 1), dt.date(2024, 2, 29), dt.date(1969, 12, 31), dt.date(9999, 12, 31)]
    if t == "time":
        return [dt.time(0, 0, 0), dt.time(12, 30, 15, 250000), dt.time(23, 59, 59, 999999)]
    if t == "timestamp":
        return [dt.datetime(1970, 1, 1), dt.datetime(2024, 2, 29, 12, 0, 0, 1),
                dt.datetime(1969, 12, 31, 23, 59, 59), dt.datetime(2262, 1, 1)]
    if t == "string":
        return ["", "a", "b", "ab", "10", "9", "é", "\U0001F600", "A"]
    if t == "uuid":
        return ["00000000-0000-0000-0000-000000000000", "123e4567-e89b-12d3-a456-426614174000",
                "ffffffff-ffff-ffff-ffff-ffffffffffff"]
    if t == "binary":
        return [b"", b"\x00", b"ab", b"\xff\xfe"]
    raise ValueError(t)


def gen_schema(rng: random.Random, ncols: Optional[int] = None, types: Optional[List[str]] = None,
               id_col: bool = True) -> List[Dict[str, Any]]:
    """Field dicts; optional leading unique row id column `rid` (long, required)."""
    fields = []
    fid = 1
    if id_col:
        fields.append({"id": fid, "name": "rid", "type": "long", "required": True})
        fid += 1
    n = ncols if ncols is not None else rng.randint(1, 4)
    for i in range(n):
        t = rng.choice(types or TYPES)
        fields.append({"id": fid, "name": f"c{i}_{t}", "type": t,
                       "required": False if rng.random() < 0.85 else True})
        fid += 1
    return fields


def gen_value(rng: random.Random, field: Dict[str, Any], null_p: float = 0.2, nan_p: float = 0.0) -> Any:
    t = field["type"]
    if not field.get("required") and rng.random() < null_p:
        return None
    pool = value_pool(t)
    if t in ("float", "double"):
        if rng.random() < nan_p:
            return NAN
        pool = [v for v in pool if not (isinstance(v, float) and math.isnan(v))] if nan_p == 0 and rng.random() < 0.7 else pool
    return rng.choice(pool)


def gen_layout(rng: random.Random, fields: List[Dict[str, Any]], max_files: int = 4,
               max_rows: int = 6, null_p: float = 0.2, nan_p: float = 0.1,
               allow_empty_file: bool = True) -> List[List[Dict[str, Any]]]:
    """List of files, each a list of records; `rid` values are unique."""
    nfiles = rng.randint(0, max_files)
    rid = 0
    files = []
    for _ in range(nfiles):
        lo = 0 if allow_empty_file and rng.random() < 0.1 else 1
        nrows = rng.randint(lo, max_rows)
        all_null_col = rng.choice([None] + [f["name"] for f in fields if not f.get("required")]) \
            if rng.random() < 0.15 else None
        rows = []
        for _r in range(nrows):
            rec: Dict[str, Any] = {}
            for f in fields:
                if f["name"] == "rid":
                    rec["rid"] = rid
                    rid += 1
                elif f["name"] == all_null_col:
                    rec[f["name"]] = None
                else:
                    rec[f["name"]] = gen_value(rng, f, null_p, nan_p)
            rows.append(rec)
        files.append(rows)
    return files


CMP_OPS = ["==", "!=", "<", "<=", ">", ">="]
ALIASES = {"==": ["==", "=", "eq", "EQ"], "!=": ["!=", "<>", "ne"], "<": ["<", "lt"],
           "<=": ["<=", "le"], ">": [">", "gt"], ">=": [">=", "ge"],
           "in": ["in", "IN"], "not_in": ["not_in", "not in", "notin"],
           "is_null": ["is_null", "isnull"], "is_not_null": ["is_not_null", "notnull", "isnotnull"]}


CROSS = {
    "date": [dt.datetime(1970, 1, 1, 12, 0), dt.datetime(2024, 2, 29, 0, 0, 1)],
    "timestamp": [dt.date(1970, 1, 1), dt.date(2024, 2, 29)],
    "long": [0.5, 1.5], "int": [0.5], "double": [0, 1, 2], "float": [0, 1],
}


def literal_pool(t: str, present: List[Any], cross: bool = False) -> List[Any]:
    vals = [v for v in present if v is not None]
    pool = list(vals) + value_pool(t)
    if cross:
        pool = pool + CROSS.get(t, []) * 3
    out = []
    for v in pool:
        if isinstance(v, float) and math.isnan(v):
            continue
        out.append(v)
    return out


def gen_filter_term(rng: random.Random, field: Dict[str, Any], present: List[Any]) -> Tuple[str, Any, str]:
    """Returns (canonical_op, condition-as-passed-to-the-API, class).
    class: 'plain' (fully specified semantics) | 'engine' (ordering on a type
    whose ordering the engine may not support: raise-or-correct)."""
    t = field["type"]
    cross = t in CROSS and rng.random() < 0.2
    pool = literal_pool(t, present, cross)
    kind = rng.choice(["eq", "eq_short", "cmp", "cmp", "between", "in", "not_in", "is_null", "is_not_null"])
    # literals of another comparable Python type: semantics are the engine's (raise-or-correct, but
    # identical in every API and with or without pruning)
    klass = "engine" if cross else "plain"
    if kind == "eq_short":
        return "==", rng.choice(pool), klass
    if kind == "eq":
        return "==", (rng.choice(ALIASES["=="]), rng.choice(pool)), klass
    if kind == "cmp":
        op = rng.choice(CMP_OPS)
        if op not in ("==", "!=") and t not in ORDERED_TYPES:
            klass = "engine"
        return op, (rng.choice(ALIASES[op]), rng.choice(pool)), klass
    if kind == "between":
        a, b = rng.choice(pool), rng.choice(pool)
        if t not in ORDERED_TYPES:
            klass = "engine"
        return "between", ("between", (a, b)), klass
    if kind in ("in", "not_in"):
        n = rng.choice([0, 1, 2, 3])
        vals: List[Any] = [rng.choice(pool) for _ in range(n)]
        if rng.random() < 0.25:
            vals.append(None)
            rng.shuffle(vals)
        return kind, (rng.choice(ALIASES[kind]), vals), klass
    return kind, (rng.choice(ALIASES[kind]), True), klass


# -- SQL three-valued evaluator -------------------------------------------

def eval_term(op: str, cond: Any, v: Any) -> bool:
    """True iff the row value v satisfies the term (unknown -> False)."""
    if op == "is_null":
        return v is None
    if op == "is_not_null":
        return v is not None
    if v is None:
        return False
    if op in ("in", "not_in"):
        vals = [x for x in cond[1] if x is not None]
        if op == "in":
            return any(_eq(v, x) for x in vals)
        return not any(_eq(v, x) for x in vals)
    if op == "between":
        lo, hi = cond[1]
        return _cmp(">=", v, lo) and _cmp("<=", v, hi)
    lit = cond[1] if isinstance(cond, tuple) else cond
    return _cmp(op, v, lit)


def _eq(a: Any, b: Any) -> bool:
    return a == b


def _cmp(op: str, a: Any, b: Any) -> bool:
    if op == "==":
        return a == b
    if op == "!=":
        return a != b
    if op == "<":
        return a < b
    if op == "<=":
        return a <= b
    if op == ">":
        return a > b
    if op == ">=":
        return a >= b
    raise ValueError(op)


MALFORMED_FILTERS = [
    ("unknown_op", lambda col: {col: ("gte", 1)}),
    ("unknown_op2", lambda col: {col: ("startswith", "a")}),
    ("none_equality", lambda col: {col: None}),
    ("between_scalar", lambda col: {col: ("between", 5)}),
    ("between_triple", lambda col: {col: ("between", (1, 2, 3))}),
    ("in_scalar", lambda col: {col: ("in", 5)}),
    ("not_in_scalar", lambda col: {col: ("not_in", 5)}),
    ("in_string", lambda col: {col: ("in", "ab")}),            # a string is iterable: must not mean in ['a', 'b']
    ("not_in_string", lambda col: {col: ("not_in", "1")}),
    ("in_iterator", lambda col: {col: ("in", iter([1, 2]))}),   # one-shot iterator: silently empty after pruning
    ("in_dict", lambda col: {col: ("in", {1: 2})}),
    ("between_string", lambda col: {col: ("between", "ab")}),   # two characters are not a (low, high) pair
    ("between_set", lambda col: {col: ("between", {1, 3})}),    # a set has no order
    ("between_dict", lambda col: {col: ("between", {1: 2, 3: 4})}),
    ("between_iterator", lambda col: {col: ("between", iter([1, 3]))}),
    ("is_null_false", lambda col: {col: ("is_null", False)}),   # must not be answered with the NULL rows
    ("is_not_null_false", lambda col: {col: ("is_not_null", False)}),
    ("is_null_string", lambda col: {col: ("is_null", "no")}),
    ("unknown_column", lambda col: {"no_such_column": 1}),
    ("unknown_column_and_known", lambda col: {"no_such_column": ("==", 1), col: ("is_not_null", True)}),
    ("nonstring_op", lambda col: {col: (5, 1)}),
    ("none_op", lambda col: {col: (None, 1)}),
]
