"""Child process for C03: performs ONE operation on a prepared table while counting
the effectful OS-level calls made under the table root, and dies (os._exit, no
finally blocks, no rollback, kernel drops the flock) immediately before call #k.

usage: crashrun.py <root> <scenario> <k|-1> <variant>
  k = -1   dry run: prints the JSON list of calls and 'DONE'
  variant  'clean' | 'torn' (an os.write at index k writes half of its buffer first)
           | 'trunc' (the newest temporary parquet file is truncated before dying)
"""
import json
import os
import sys


def main() -> None:
    root, scenario, k, variant = sys.argv[1], sys.argv[2], int(sys.argv[3]), sys.argv[4]
    from vf.common import setup_repo_path

    setup_repo_path()
    import fcntl
    import glob

    import pyarrow.parquet as pq

    import datashard as ds
    from vf import tables

    rroot = os.path.realpath(root)
    calls = []
    state = {"n": 0, "armed": True}

    def under(p) -> bool:
        try:
            p = os.fsdecode(p)
        except Exception:
            return False
        if not os.path.isabs(p):
            p = os.path.join(os.getcwd(), p)
        rp = os.path.realpath(os.path.dirname(p)) + "/" + os.path.basename(p)
        return rp.startswith(rroot + "/") or rp == rroot or os.path.realpath(p).startswith(rroot)

    def fdpath(fd):
        try:
            return os.readlink(f"/proc/self/fd/{fd}")
        except OSError:
            return ""

    def step(name, detail, torn=None):
        if not state["armed"]:
            return
        idx = state["n"]
        state["n"] += 1
        calls.append([name, detail.replace(rroot, "<root>")])
        if idx == k:
            if variant == "torn" and torn is not None:
                torn()
            if variant == "trunc":
                tmp = sorted(glob.glob(os.path.join(rroot, "data", "tmp*.parquet")), key=os.path.getmtime)
                if tmp:
                    sz = os.path.getsize(tmp[-1])
                    with open(tmp[-1], "r+b") as f:
                        f.truncate(sz // 2)
            sys.stdout.write(f"CRASH at #{idx} {name} {detail}\n")
            sys.stdout.flush()
            os._exit(137)

    r_open, r_write, r_fsync, r_close = os.open, os.write, os.fsync, os.close
    r_replace, r_rename, r_remove, r_unlink, r_mkdir = os.replace, os.rename, os.remove, os.unlink, os.mkdir
    r_flock = fcntl.flock

    def p_open(path, flags, *a, **kw):
        if isinstance(path, (str, bytes)) and flags & (os.O_CREAT | os.O_WRONLY | os.O_RDWR) and under(path):
            step("open", os.fsdecode(path))
        return r_open(path, flags, *a, **kw)

    def p_write(fd, data):
        p = fdpath(fd)
        if p.startswith(rroot):
            step("write", f"{p} [{len(data)}B]", torn=lambda: r_write(fd, bytes(data)[: max(1, len(data) // 2)]))
        return r_write(fd, data)

    def p_fsync(fd):
        p = fdpath(fd)
        if p.startswith(rroot):
            step("fsync", p)
        return r_fsync(fd)

    def p_close(fd):
        p = fdpath(fd)
        if p.startswith(rroot) and not p.endswith(".parquet") or "/.locks/" in p:
            step("close", p)
        return r_close(fd)

    def two(name, real):
        def f(a, b, *x, **kw):
            if under(a) or under(b):
                step(name, f"{os.fsdecode(a)} -> {os.fsdecode(b)}")
            return real(a, b, *x, **kw)
        return f

    def one(name, real):
        def f(a, *x, **kw):
            if isinstance(a, (str, bytes)) and under(a):
                step(name, os.fsdecode(a))
            return real(a, *x, **kw)
        return f

    def p_flock(fd, op):
        p = fdpath(fd)
        if p.startswith(rroot):
            step("flock", f"{p} op={op}")
        return r_flock(fd, op)

    os.open, os.write, os.fsync, os.close = p_open, p_write, p_fsync, p_close
    os.replace, os.rename = two("replace", r_replace), two("rename", r_rename)
    os.remove, os.unlink, os.mkdir = one("remove", r_remove), one("unlink", r_unlink), one("mkdir", r_mkdir)
    fcntl.flock = p_flock

    # pyarrow writes the temporary parquet file from C++: count the Python-visible stages
    PW = pq.ParquetWriter
    o_init, o_wb, o_close = PW.__init__, PW.write_batch, PW.close

    def pw_init(self, where, *a, **kw):
        if isinstance(where, str) and where.startswith(rroot):
            step("parquet.open", where)
        return o_init(self, where, *a, **kw)

    def pw_wb(self, *a, **kw):
        step("parquet.write_batch", "")
        return o_wb(self, *a, **kw)

    def pw_close(self, *a, **kw):
        step("parquet.close", "")
        r = o_close(self, *a, **kw)
        step("parquet.closed", "")
        return r

    PW.__init__, PW.write_batch, PW.close = pw_init, pw_wb, pw_close

    # ---- the operation ----
    state["armed"] = scenario == "create"
    if scenario == "create":
        ds.create_table(root, schema=tables.std_schema())
    else:
        t = ds.load_table(root)
        seeds = sorted(t.metadata_manager.refresh().snapshots, key=lambda s: s.sequence_number or 0)
        files = tables.current_files(t)
        state["armed"] = True
        if scenario == "append":
            t.append_records(tables.rows([9001, 9002]))
        elif scenario == "multi":
            with t.new_transaction() as tx:
                tx.append_data(tables.rows([9001]))
                tx.append_data(tables.rows([9002, 9003]))
                tx.commit()
        elif scenario == "delete":
            with t.new_transaction() as tx:
                tx.delete_files([files[0]])
                tx.commit()
        elif scenario == "delete_append":
            with t.new_transaction() as tx:
                tx.delete_files([files[0]])
                tx.append_data(tables.rows([9001]))
                tx.commit()
        elif scenario == "expire":
            with t.new_transaction() as tx:
                tx.expire_snapshots(seeds[-1].timestamp_ms)
                tx.commit()
        elif scenario == "delsnap_old":
            t.snapshot_manager.delete_snapshot(seeds[0].snapshot_id)
        elif scenario == "delsnap_current":
            t.snapshot_manager.delete_snapshot(seeds[-1].snapshot_id)
        elif scenario == "gc":
            from datashard.garbage_collector import GarbageCollector

            GarbageCollector(t.table_path, t.metadata_manager, t.file_manager).collect(0, 0)
        else:
            raise SystemExit(f"unknown scenario {scenario}")
    state["armed"] = False
    if k == -1:
        sys.stdout.write("CALLS " + json.dumps(calls) + "\n")
    sys.stdout.write("DONE\n")
    sys.stdout.flush()
    os._exit(0)


if __name__ == "__main__":
    main()
