"""Stress worker for the local lock: repeatedly acquire -> non-atomic
read/sleep/write increment of a shared counter, bracketed by O_APPEND enter/exit
log lines -> release.  Killed at random by the parent (SIGKILL)."""
import os
import random
import sys
import time


def main() -> None:
    d, idx, rounds, seed = sys.argv[1], int(sys.argv[2]), int(sys.argv[3]), int(sys.argv[4])
    from vf.common import setup_repo_path

    setup_repo_path()
    from datashard.file_lock import FileLock

    rng = random.Random(f"{seed}:{idx}:{os.getpid()}")
    lock = FileLock(os.path.join(d, "the.lock"), timeout=60.0)
    logfd = os.open(os.path.join(d, "log"), os.O_WRONLY | os.O_APPEND | os.O_CREAT)
    counter = os.path.join(d, "counter")
    pid = os.getpid()
    for r in range(rounds):
        try:
            lock.acquire()
        except TimeoutError:
            os.write(logfd, f"T {pid} {r}\n".encode())
            continue
        os.write(logfd, f"E {pid} {r}\n".encode())
        try:
            with open(counter, "r") as f:
                v = int(f.read().strip() or 0)
        except FileNotFoundError:
            v = 0
        if rng.random() < 0.5:
            time.sleep(rng.random() * 0.002)
        # the read-modify-write is deliberately not atomic; the WRITE is (temp + rename), so that a SIGKILL
        # in the middle of it cannot leave an empty file that the next holder would read as 0
        tmp = f"{counter}.{pid}"
        with open(tmp, "w") as f:
            f.write(str(v + 1))
        os.replace(tmp, counter)
        os.write(logfd, f"X {pid} {r}\n".encode())
        lock.release()
        if rng.random() < 0.3:
            time.sleep(rng.random() * 0.001)
    os.write(logfd, f"D {pid} done\n".encode())


if __name__ == "__main__":
    main()
