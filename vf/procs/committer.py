"""Stress worker: commits appends to a shared local table under the real OS
scheduler, with seeded random delays injected at L1 storage operations.
Prints 'ACK id id' for every commit that returned success."""
import random
import sys
import time


def main() -> None:
    root, idx, n, seed = sys.argv[1], int(sys.argv[2]), int(sys.argv[3]), int(sys.argv[4])
    from vf.common import setup_repo_path

    setup_repo_path()
    import datashard as ds
    from vf import tables
    from vf.interpose import Interposer

    rng = random.Random(f"{seed}:{idx}")
    ip = Interposer().install()

    def jitter(op):
        if op.phase == "before" and rng.random() < 0.15:
            time.sleep(rng.random() * 0.003)

    ip.before.append(jitter)
    t = ds.load_table(root)
    for k in range(n):
        ids = [100000 * (idx + 1) + 2 * k, 100000 * (idx + 1) + 2 * k + 1]
        try:
            if t.append_records(tables.rows(ids)):
                print("ACK", ids[0], ids[1], flush=True)
        except Exception as e:  # noqa
            print("RAISED", type(e).__name__, flush=True)
        if rng.random() < 0.2:
            t = ds.load_table(root)


if __name__ == "__main__":
    main()
