"""Child for C16: the whole life of a table in one traced process.  Between
operations a marker line is written to stderr so that the offline checker can
attribute pointer flips to operations."""
import os
import sys
import time


def mark(s: str) -> None:
    os.write(2, f"MARK {s}\n".encode())


def fault_life(root: str, kind: str, ds, tables) -> None:
    """an fsync of one file kind fails (EIO, nothing is flushed) during an append: the append must not be
    acknowledged with a pointer to unflushed content"""
    dirs = {"dir_metadata": "metadata", "dir_manifests": "metadata/manifests", "dir_data": "data", "dir_inflight": "metadata/inflight"}
    pat = {"metadata": ".metadata.json", "manifest_list": "manifest_list_", "manifest": ".manifest_", "data": ".parquet",
           "hint": "version-hint", "marker": ".inflight"}.get(kind, "\0")
    real_fsync = os.fsync
    state = {"armed": False, "fired": 0}
    rroot = os.path.realpath(root)

    def fsync(fd):
        if state["armed"] and not state["fired"]:
            try:
                p = os.readlink(f"/proc/self/fd/{fd}")
            except OSError:
                p = ""
            if kind in dirs and p == os.path.join(rroot, dirs[kind]):
                # the DIRECTORY fsync that persists a freshly renamed entry fails: the entry is not durable
                state["fired"] = 1
                os.write(2, b"MARK fault_fired\n")
                raise OSError(5, "Input/output error (injected: directory entry not persisted)")
            if pat in p and (kind not in ("manifest", "manifest_list", "data") or ".inflight" not in p) \
                    and (kind != "manifest" or "manifest_list_" not in p):
                state["fired"] = 1
                os.write(2, b"MARK fault_fired\n")
                raise OSError(5, "Input/output error (injected: nothing was flushed)")
        return real_fsync(fd)

    os.fsync = fsync
    mark("create")
    t = ds.create_table(root, schema=tables.std_schema())
    mark("append")
    t.append_records(tables.rows([1, 2]))
    state["armed"] = True
    mark("append_with_fsync_fault")
    try:
        t.append_records(tables.rows([3, 4]))
        mark("faulted_append_ACKED")
    except Exception as e:  # noqa
        mark("faulted_append_RAISED " + type(e).__name__)
    state["armed"] = False
    mark("append_after_fault")
    ds.load_table(root).append_records(tables.rows([5]))
    mark("end")
    os._exit(0)


def shortwrite_life(root: str, kind: str, ds, tables) -> None:
    """one os.write() on a file of the given kind is SHORT (the kernel accepts only half of the buffer and
    says so): the published file must still be complete, or the operation must fail - never a truncated file
    behind an advanced pointer"""
    pat = {"metadata": ".metadata.json", "manifest_list": "manifest_list_", "manifest": ".manifest_",
           "hint": "version-hint", "marker": ".inflight"}[kind]
    real_write = os.write
    state = {"armed": False, "fired": 0}

    def write(fd, data):
        if state["armed"] and not state["fired"] and len(data) > 1:
            try:
                p = os.readlink(f"/proc/self/fd/{fd}")
            except OSError:
                p = ""
            if pat in p and (kind not in ("manifest", "manifest_list") or ".inflight" not in p) \
                    and (kind != "manifest" or "manifest_list_" not in p):
                state["fired"] = 1
                real_write(2, b"MARK fault_fired\n")
                return real_write(fd, bytes(data)[: len(data) // 2])
        return real_write(fd, data)

    os.write = write
    mark("create")
    t = ds.create_table(root, schema=tables.std_schema())
    mark("append")
    t.append_records(tables.rows([1, 2]))
    state["armed"] = True
    mark("append_with_short_write")
    try:
        t.append_records(tables.rows([3, 4]))
        mark("faulted_append_ACKED")
    except Exception as e:  # noqa
        mark("faulted_append_RAISED " + type(e).__name__)
    state["armed"] = False
    mark("append_after_fault")
    ds.load_table(root).append_records(tables.rows([5]))
    mark("end")
    os._exit(0)


def renamefail_life(root: str, kind: str, ds, tables) -> None:
    """the rename that publishes a file of the given kind is refused once (EXDEV/EBUSY: bind mounts, overlay
    directories, network shares): the operation must fail, or publish the file some other way that is just as
    durable - never an unflushed copy behind an advanced pointer"""
    pat = {"metadata": ".metadata.json", "manifest_list": "manifest_list_", "manifest": "manifest_", "data": ".parquet",
           "hint": "version-hint"}[kind]
    real = {"rename": os.rename, "replace": os.replace}
    state = {"armed": False, "fired": 0}

    def make(name):
        def fn(src, dst, *a, **kw):
            d = os.fspath(dst)
            if state["armed"] and not state["fired"] and pat in os.path.basename(d) and ".inflight" not in d \
                    and (kind != "manifest" or "manifest_list_" not in d):
                state["fired"] = 1
                os.write(2, b"MARK fault_fired\n")
                raise OSError(18, "Invalid cross-device link (injected)")
            return real[name](src, dst, *a, **kw)
        return fn

    os.rename = make("rename")
    os.replace = make("replace")
    mark("create")
    t = ds.create_table(root, schema=tables.std_schema())
    mark("append")
    t.append_records(tables.rows([1, 2]))
    state["armed"] = True
    mark("append_with_refused_rename")
    try:
        t.append_records(tables.rows([3, 4]))
        mark("faulted_append_ACKED")
    except Exception as e:  # noqa
        mark("faulted_append_RAISED " + type(e).__name__)
    state["armed"] = False
    mark("append_after_fault")
    ds.load_table(root).append_records(tables.rows([5]))
    mark("end")
    os._exit(0)


def threads_life(root: str, ds, tables) -> None:
    """two threads share ONE Table object: thread A is suspended inside the write of an in-flight marker while
    thread B runs a whole append through the same handle, then A continues - every commit must be as durable as
    a single-threaded one"""
    import threading

    real_write = os.write
    a_in_marker = threading.Event()
    b_done = threading.Event()
    state = {"armed": False, "fired": 0}
    names = {}

    def write(fd, data):
        if state["armed"] and not state["fired"] and threading.current_thread() is names.get("A"):
            try:
                p = os.readlink(f"/proc/self/fd/{fd}")
            except OSError:
                p = ""
            if ".inflight" in p:
                state["fired"] = 1
                real_write(2, b"MARK fault_fired\n")
                a_in_marker.set()
                b_done.wait(60)
        return real_write(fd, data)

    os.write = write
    mark("create")
    t = ds.create_table(root, schema=tables.std_schema())
    mark("append")
    t.append_records(tables.rows([1, 2]))
    state["armed"] = True
    mark("two_threads_append")

    def a_body():
        t.append_records(tables.rows([3, 4]))

    def b_body():
        a_in_marker.wait(60)
        try:
            t.append_records(tables.rows([5, 6]))
        finally:
            b_done.set()

    ta = threading.Thread(target=a_body, name="A")
    tb = threading.Thread(target=b_body, name="B")
    names["A"] = ta
    ta.start()
    tb.start()
    ta.join(120)
    tb.join(120)
    mark("faulted_append_ACKED")
    state["armed"] = False
    mark("append_after_fault")
    ds.load_table(root).append_records(tables.rows([7]))
    mark("end")
    os._exit(0)


def main() -> None:
    root = sys.argv[1]
    variant = sys.argv[2] if len(sys.argv) > 2 else "a"
    from vf.common import setup_repo_path

    setup_repo_path()
    import datashard as ds
    from vf import tables

    if variant.startswith("fault:"):
        return fault_life(root, variant.split(":", 1)[1], ds, tables)
    if variant.startswith("shortwrite:"):
        return shortwrite_life(root, variant.split(":", 1)[1], ds, tables)
    if variant == "threads":
        return threads_life(root, ds, tables)
    if variant.startswith("renamefail:"):
        return renamefail_life(root, variant.split(":", 1)[1], ds, tables)

    if variant == "bigmeta":
        # every metadata file of this table is larger than 4 MiB (a huge table property): whatever way the library
        # writes large files - in chunks, with intermediate flushes - the whole content must be flushed at the flip
        import copy
        mark("create")
        t = ds.create_table(root, schema=tables.std_schema())
        mark("append")
        t.append_records(tables.rows([1, 2]))
        mark("set_huge_property")
        mm = t.metadata_manager
        base = mm.refresh()
        new = copy.deepcopy(base)
        new.properties["comment"] = "x" * (4 * 1024 * 1024 + 300_017)
        mm.commit(base, new)
        mark("append_big_1")
        t.append_records(tables.rows([3]))
        mark("append_big_2")
        ds.load_table(root).append_records(tables.rows([4]))
        mark("end")
        os._exit(0)
    mark("create")
    t = ds.create_table(root, schema=tables.std_schema())
    if variant == "b":
        # a different life: more history before the destructive operations, reopen in between
        for i in range(3):
            mark("append")
            ds.load_table(root).append_records(tables.rows([100 + i]))
            time.sleep(0.002)
    mark("append")
    t.append_records(tables.rows([1, 2]))
    time.sleep(0.003)
    mark("append")
    t.append_records(tables.rows([3]))
    time.sleep(0.003)
    mark("multi")
    with t.new_transaction() as tx:
        tx.append_data(tables.rows([4]))
        tx.append_data(tables.rows([5, 6]))
        tx.commit()
    files = tables.current_files(t)
    mark("delete")
    with t.new_transaction() as tx:
        tx.delete_files([files[0]])
        tx.commit()
    mark("delete_append")
    with t.new_transaction() as tx:
        tx.delete_files([files[1]])
        tx.append_data(tables.rows([7]))
        tx.commit()
    snaps = sorted(t.metadata_manager.refresh().snapshots, key=lambda s: s.sequence_number or 0)
    mark("delsnap")
    t.snapshot_manager.delete_snapshot(snaps[1].snapshot_id)
    mark("expire")
    with t.new_transaction() as tx:
        tx.expire_snapshots(snaps[2].timestamp_ms + 1)
        tx.commit()
    mark("fresh_handle_append")
    ds.load_table(root).append_records(tables.rows([8]))
    mark("gc")
    tables.age_tree(root, 7200, only=["data", "metadata/manifests"])
    ds.load_table(root).garbage_collect(0)
    mark("append_after_gc")
    ds.load_table(root).append_records(tables.rows([9]))
    mark("end")
    os._exit(0)


if __name__ == "__main__":
    main()
