"""Child for C16: the whole life of a table in one traced process.  Between
operations a marker line is written to stderr so that the offline checker can
attribute pointer flips to operations."""
import os
import sys
import time


def mark(s: str) -> None:
    os.write(2, f"MARK {s}\n".encode())


def main() -> None:
    root = sys.argv[1]
    variant = sys.argv[2] if len(sys.argv) > 2 else "a"
    from vf.common import setup_repo_path

    setup_repo_path()
    import datashard as ds
    from vf import tables

    mark("create")
    t = ds.create_table(root, schema=tables.std_schema())
    if variant == "b":
        # a different life: more history before the destructive operations, reopen in between
        for i in range(3):
            mark("append")
            ds.load_table(root).append_records(tables.rows([100 + i]))
            time.sleep(0.002)
    mark("append")
    t.append_records(tables.rows([1, 2]))
    time.sleep(0.003)
    mark("append")
    t.append_records(tables.rows([3]))
    time.sleep(0.003)
    mark("multi")
    with t.new_transaction() as tx:
        tx.append_data(tables.rows([4]))
        tx.append_data(tables.rows([5, 6]))
        tx.commit()
    files = tables.current_files(t)
    mark("delete")
    with t.new_transaction() as tx:
        tx.delete_files([files[0]])
        tx.commit()
    mark("delete_append")
    with t.new_transaction() as tx:
        tx.delete_files([files[1]])
        tx.append_data(tables.rows([7]))
        tx.commit()
    snaps = sorted(t.metadata_manager.refresh().snapshots, key=lambda s: s.sequence_number or 0)
    mark("delsnap")
    t.snapshot_manager.delete_snapshot(snaps[1].snapshot_id)
    mark("expire")
    with t.new_transaction() as tx:
        tx.expire_snapshots(snaps[2].timestamp_ms + 1)
        tx.commit()
    mark("fresh_handle_append")
    ds.load_table(root).append_records(tables.rows([8]))
    mark("gc")
    tables.age_tree(root, 7200, only=["data", "metadata/manifests"])
    ds.load_table(root).garbage_collect(0)
    mark("append_after_gc")
    ds.load_table(root).append_records(tables.rows([9]))
    mark("end")
    os._exit(0)


if __name__ == "__main__":
    main()
