"""Child for C19: fork() scenarios of the local lock, each judged against an
independent probe of the kernel lock (a raw flock attempt on a private descriptor).

Prints one JSON object per scenario on stdout:
  {"scenario": ..., "observations": {...}, "violations": [[signature, message], ...]}
The process that runs this is the 'parent' of the scenarios; children are made
with os.fork() so that they INHERIT lock instances the parent has already used."""
import fcntl
import json
import os
import sys
import time


def probe_locked(path: str) -> bool:
    """True iff some open file description currently holds a flock on the file at `path`."""
    fd = os.open(path, os.O_CREAT | os.O_RDWR)
    try:
        try:
            fcntl.flock(fd, fcntl.LOCK_EX | fcntl.LOCK_NB)
        except OSError:
            return True
        fcntl.flock(fd, fcntl.LOCK_UN)
        return False
    finally:
        os.close(fd)


class Child:
    """fork() a child that runs fn(step) where step() blocks until the parent says go."""

    def __init__(self, fn):
        self.p2c_r, self.p2c_w = os.pipe()
        self.c2p_r, self.c2p_w = os.pipe()
        self.pid = os.fork()
        if self.pid == 0:
            os.close(self.p2c_w)
            os.close(self.c2p_r)
            code = 0
            try:
                fn(self)
            except SystemExit as e:
                code = int(e.code or 0)
            except BaseException as e:  # noqa
                self.say({"child_error": f"{type(e).__name__}: {e}"})
                code = 3
            if getattr(self, "graceful", False):
                sys.stdout.flush()
                sys.exit(code)       # normal interpreter shutdown: finalizers of inherited objects run
            os._exit(code)
        os.close(self.p2c_r)
        os.close(self.c2p_w)

    # child side
    def say(self, obj) -> None:
        os.write(self.c2p_w, (json.dumps(obj) + "\n").encode())

    def wait_go(self) -> None:
        os.read(self.p2c_r, 1)

    # parent side
    def hear(self, timeout: float = 20.0):
        import select
        buf = b""
        end = time.monotonic() + timeout
        while not buf.endswith(b"\n"):
            r, _, _ = select.select([self.c2p_r], [], [], max(0.0, end - time.monotonic()))
            if not r:
                return {"child_silent": True}
            chunk = os.read(self.c2p_r, 65536)
            if not chunk:
                return {"child_closed": True}
            buf += chunk
        return json.loads(buf.decode().splitlines()[-1])

    def go(self) -> None:
        os.write(self.p2c_w, b"g")

    def join(self) -> int:
        _, st = os.waitpid(self.pid, 0)
        return os.waitstatus_to_exitcode(st)


def mk(kind: str, path: str, timeout: float):
    if kind == "provider":
        from datashard.lock_provider import LocalLockProvider
        return LocalLockProvider(path, timeout=timeout)
    from datashard.file_lock import FileLock
    return FileLock(path, timeout=timeout)


def acquire_nb(lock) -> bool:
    return bool(lock.acquire(blocking=False))


def blocking_outcome(lock) -> str:
    try:
        return "acquired" if lock.acquire() else "false"
    except TimeoutError:
        return "timeout"


def scenario_warm_fork_child_holds(kind: str, d: str):
    """the parent used the lock before (acquire+release), then forks; the child acquires and holds"""
    path = os.path.join(d, "a.lock")
    lock = mk(kind, path, 0.4)
    viol, obs = [], {}
    assert lock.acquire()
    lock.release()

    def child(c: Child) -> None:
        ok = blocking_outcome(lock)
        c.say({"child_acquired": ok, "child_is_held": bool(lock.is_held())})
        c.wait_go()
        lock.release()
        c.say({"released": True})

    c = Child(child)
    obs["child"] = c.hear()
    obs["kernel_locked_while_child_holds"] = probe_locked(path)
    obs["parent_nonblocking"] = acquire_nb(lock)
    if obs["parent_nonblocking"]:
        viol.append(["fork:two-holders:warm-instance", "the parent's acquire(blocking=False) succeeded while the forked child holds the lock"])
        lock.release()
    obs["parent_blocking"] = blocking_outcome(lock)
    if obs["parent_blocking"] != "timeout":
        viol.append(["fork:no-timeout-while-held:warm-instance", f"blocking acquire ended '{obs['parent_blocking']}' while the forked child holds the lock"])
        lock.release()
    obs["parent_is_held_after_failed_attempts"] = bool(lock.is_held())
    if obs["parent_is_held_after_failed_attempts"] and not viol:
        viol.append(["fork:is-held-after-failed-acquire", "is_held() is True after failed acquisitions"])
    c.go()
    obs["child_release"] = c.hear()
    c.join()
    obs["parent_after_child_released"] = blocking_outcome(lock)
    if obs["parent_after_child_released"] != "acquired":
        viol.append(["fork:not-acquirable-after-release", f"after the child released: {obs['parent_after_child_released']}"])
    else:
        lock.release()
    return obs, viol


def scenario_fork_while_holding(kind: str, d: str, graceful_exit: bool):
    """the parent HOLDS the lock and forks; the child uses / drops the instance it inherited"""
    path = os.path.join(d, "b.lock")
    lock = mk(kind, path, 0.4)
    viol, obs = [], {}
    assert lock.acquire()

    def child(c: Child) -> None:
        c.graceful = graceful_exit
        if graceful_exit:
            c.say({"child": "exits normally with the inherited instance"})
            return
        got = acquire_nb(lock)
        c.say({"child_nonblocking_on_inherited_instance": got})
        c.wait_go()

    c = Child(child)
    obs["child"] = c.hear()
    if graceful_exit:
        obs["child_exit"] = c.join()
    obs["parent_is_held"] = bool(lock.is_held())
    obs["kernel_locked"] = probe_locked(path)
    other = mk(kind, path, 0.4)
    obs["third_contender_nonblocking"] = acquire_nb(other)
    tag = "child-exit" if graceful_exit else "child-acquire"
    if not graceful_exit and obs["child"].get("child_nonblocking_on_inherited_instance"):
        viol.append([f"fork:two-holders:{tag}", "the child acquired through the inherited instance while the parent holds the lock"])
    if obs["parent_is_held"] and (not obs["kernel_locked"] or obs["third_contender_nonblocking"]):
        viol.append([f"fork:is-held-true-but-kernel-lock-gone:{tag}",
                     "the parent still reports is_held()==True but its kernel lock was dropped by the child; a third contender "
                     f"acquired={obs['third_contender_nonblocking']}"])
    if obs["third_contender_nonblocking"]:
        other.release()
    if not graceful_exit:
        c.go()
        c.join()
    lock.release()
    obs["acquirable_after_release"] = blocking_outcome(other)
    if obs["acquirable_after_release"] != "acquired":
        viol.append(["fork:not-acquirable-after-release", f"after the parent released: {obs['acquirable_after_release']}"])
    else:
        other.release()
    return obs, viol


def scenario_recreated_file(kind: str, d: str):
    """the lock file is removed while the lock is free; a warm and a fresh instance must still exclude each other"""
    path = os.path.join(d, "c.lock")
    x = mk(kind, path, 0.4)
    viol, obs = [], {}
    assert x.acquire()
    x.release()
    try:
        os.unlink(path)
    except FileNotFoundError:
        pass        # an implementation that removes its lock file on release: nothing to re-create
    y = mk(kind, path, 0.4)
    obs["y_acquired"] = acquire_nb(y)
    obs["x_nonblocking_while_y_holds"] = acquire_nb(x)
    if obs["y_acquired"] and obs["x_nonblocking_while_y_holds"]:
        viol.append(["recreated-file:two-holders", "a warm instance acquired while a fresh instance holds the re-created lock file"])
        x.release()
    if obs["y_acquired"]:
        y.release()
    return obs, viol


def main() -> None:
    d, kind = sys.argv[1], sys.argv[2]
    from vf.common import setup_repo_path

    setup_repo_path()
    import warnings
    warnings.simplefilter("ignore")
    scenarios = [
        ("warm_fork_child_holds", lambda: scenario_warm_fork_child_holds(kind, d)),
        ("fork_while_holding:child_acquires", lambda: scenario_fork_while_holding(kind, d, False)),
        ("fork_while_holding:child_exits", lambda: scenario_fork_while_holding(kind, d, True)),
        ("recreated_file", lambda: scenario_recreated_file(kind, d)),
    ]
    for name, fn in scenarios:
        obs, viol = fn()
        sys.stdout.write(json.dumps({"scenario": name, "kind": kind, "observations": obs, "violations": viol}) + "\n")
        sys.stdout.flush()
    os._exit(0)


if __name__ == "__main__":
    main()
