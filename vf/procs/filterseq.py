"""Child for C12: runs a list of filters, in the given order, through ONE process and
prints the outcome of each (row ids or exception type).  The parent runs the same list
in several orders: the outcome of a filter must not depend on the filters issued before."""
import json
import sys


def main() -> None:
    root, spec = sys.argv[1], sys.argv[2]
    from vf.common import setup_repo_path

    setup_repo_path()
    import datashard as ds

    items = json.load(open(spec))          # [[index, column, op, value], ...] in execution order
    t = ds.load_table(root)
    out = {}
    for idx, col, op, val in items:
        if op in ("in", "not_in"):
            flt = {col: (op, val)}
        elif op == "plain":
            flt = {col: val}
        else:
            flt = {col: (op, val)}
        res = {}
        for api in ("scan", "scan_noverify", "iter_records"):
            try:
                if api == "scan":
                    rows = t.scan(filter=flt)
                elif api == "scan_noverify":
                    rows = t.scan(filter=flt, verify_checksums=False)
                else:
                    rows = list(t.iter_records(filter=flt))
                res[api] = ["rows", sorted(r["rid"] for r in rows)]
            except Exception as e:  # noqa
                res[api] = ["raise", type(e).__name__]
        out[str(idx)] = res
    sys.stdout.write(json.dumps(out))
    sys.stdout.flush()
    import os
    os._exit(0)


if __name__ == "__main__":
    main()
