"""E4 - independent reader.

Re-implements "pointer -> metadata JSON -> manifest list -> manifests -> parquet"
with json / fastavro / pyarrow only.  Shares no code with datashard, so it can
serve as ground truth for what is durably on storage.
"""
from __future__ import annotations

import hashlib
import io
import json
import os
import re
from typing import Any, Callable, Dict, List, Optional, Tuple

import fastavro
import pyarrow.parquet as pq

HINT = "metadata.version-hint.text"
_META_RE = re.compile(r"^v(\d+)(?:-[0-9a-f]{8})?\.metadata\.json$")


class Blobs:
    """Uniform byte access to a table root: local dir or a dict of S3 keys."""

    def __init__(self, get: Callable[[str], Optional[bytes]], listing: Callable[[], List[str]]):
        self.get = get
        self.listing = listing

    @staticmethod
    def local(root: str) -> "Blobs":
        root = os.path.realpath(root)

        def get(rel: str) -> Optional[bytes]:
            p = os.path.join(root, rel.lstrip("/"))
            try:
                with open(p, "rb") as f:
                    return f.read()
            except (FileNotFoundError, IsADirectoryError, NotADirectoryError):
                return None
            except OSError as e:
                if e.errno == 36:       # ENAMETOOLONG: no such file can exist
                    return None
                raise

        def listing() -> List[str]:
            out = []
            for d, _dirs, files in os.walk(root):
                for f in files:
                    out.append(os.path.relpath(os.path.join(d, f), root))
            return sorted(out)

        return Blobs(get, listing)

    @staticmethod
    def s3(store: Any, bucket: str, prefix: str) -> "Blobs":
        prefix = prefix.strip("/")
        pre = prefix + "/" if prefix else ""

        def get(rel: str) -> Optional[bytes]:
            o = store.objects.get((bucket, pre + rel.lstrip("/")))
            return None if o is None else o.body

        def listing() -> List[str]:
            return sorted(k[len(pre):] for (b, k) in store.objects if b == bucket and k.startswith(pre))

        return Blobs(get, listing)


class ReadError(Exception):
    pass


def norm(p: str) -> str:
    return p.lstrip("/")


def pointer_target(blobs: Blobs) -> Optional[str]:
    raw = blobs.get(HINT)
    if raw is None:
        return None
    try:
        t = raw.decode("utf-8").strip()
    except UnicodeDecodeError:
        return None
    if t.isdigit():
        return f"v{t}.metadata.json"
    return t if _META_RE.match(t) else None


def read_manifest_list(blobs: Blobs, path: str) -> List[Dict[str, Any]]:
    raw = blobs.get(norm(path))
    if raw is None:
        raise ReadError(f"missing manifest list {path}")
    try:
        return list(fastavro.reader(io.BytesIO(raw)))
    except Exception as e:
        raise ReadError(f"unparseable manifest list {path}: {e}") from e


def read_manifest(blobs: Blobs, path: str) -> List[Dict[str, Any]]:
    raw = blobs.get(norm(path))
    if raw is None:
        raise ReadError(f"missing manifest {path}")
    try:
        return list(fastavro.reader(io.BytesIO(raw)))
    except Exception as e:
        raise ReadError(f"unparseable manifest {path}: {e}") from e


def read_rows(blobs: Blobs, path: str) -> List[Dict[str, Any]]:
    raw = blobs.get(norm(path))
    if raw is None:
        raise ReadError(f"missing data file {path}")
    try:
        return pq.read_table(io.BytesIO(raw)).to_pylist()
    except Exception as e:
        raise ReadError(f"unparseable data file {path}: {e}") from e


def canon_row(r: Dict[str, Any]) -> str:
    return json.dumps({k: _cv(v) for k, v in r.items()}, sort_keys=True)


def _cv(v: Any) -> Any:
    if isinstance(v, float):
        return repr(v)
    if isinstance(v, bytes):
        return "b:" + v.hex()
    if isinstance(v, (int, str, bool)) or v is None:
        return v
    return repr(v)


def canon_rows(rows: List[Dict[str, Any]]) -> List[str]:
    return sorted(canon_row(r) for r in rows)


class SnapshotView:
    def __init__(self, raw: Dict[str, Any]):
        self.raw = raw
        self.id = raw["snapshot_id"]
        self.parent = raw.get("parent_snapshot_id")
        self.seq = raw.get("sequence_number")
        self.ts = raw.get("timestamp_ms")
        self.manifest_list = raw["manifest_list"]
        self.manifests: List[str] = []
        self.entries: List[Dict[str, Any]] = []   # manifest entries (with data_file)
        self.files: List[str] = []                # normalised data file paths (deduped, ordered)
        self.rows: Optional[List[str]] = None     # canonical rows
        self.error: Optional[str] = None

    def all_paths(self) -> List[str]:
        return [norm(self.manifest_list)] + [norm(m) for m in self.manifests] + list(self.files)


class TableView:
    def __init__(self) -> None:
        self.pointer: Optional[str] = None
        self.meta: Optional[Dict[str, Any]] = None
        self.snapshots: List[SnapshotView] = []
        self.error: Optional[str] = None

    @property
    def uuid(self) -> Optional[str]:
        return self.meta.get("table_uuid") if self.meta else None

    @property
    def current_id(self) -> Optional[int]:
        if not self.meta:
            return None
        c = self.meta.get("current_snapshot_id")
        return None if c in (None, -1) else c

    def snap(self, sid: int) -> Optional[SnapshotView]:
        for s in self.snapshots:
            if s.id == sid:
                return s
        return None

    def current(self) -> Optional[SnapshotView]:
        c = self.current_id
        return None if c is None else self.snap(c)

    def current_rows(self) -> List[str]:
        c = self.current()
        if c is None:
            return []
        if c.rows is None:
            raise ReadError(c.error or "current snapshot unreadable")
        return c.rows

    def reachable(self) -> List[str]:
        out: List[str] = []
        for s in self.snapshots:
            out.extend(s.all_paths())
        return sorted(set(out))

    def summary(self) -> Dict[str, Any]:
        """Comparable state: identity, schema, snapshot list and rows."""
        if self.meta is None:
            return {"absent": True, "error": self.error}
        return {
            "uuid": self.uuid,
            "schemas": self.meta.get("schemas"),
            "current": self.current_id,
            "snapshots": [
                {"id": s.id, "rows": s.rows, "files": sorted(s.files), "err": s.error}
                for s in sorted(self.snapshots, key=lambda s: s.id)
            ],
        }


def read_metadata_file(blobs: Blobs, name: str) -> Dict[str, Any]:
    raw = blobs.get(f"metadata/{name}")
    if raw is None:
        raise ReadError(f"missing metadata file {name}")
    try:
        d = json.loads(raw.decode("utf-8"))
    except Exception as e:
        raise ReadError(f"unparseable metadata file {name}: {e}") from e
    if not isinstance(d, dict) or "snapshots" not in d:
        raise ReadError(f"metadata file {name} lacks snapshots")
    return d


def read_table(blobs: Blobs, metadata_name: Optional[str] = None, rows: bool = True,
               strict: bool = False) -> TableView:
    """Read the table as the pointer (or `metadata_name`) describes it.

    Per-snapshot failures are recorded in SnapshotView.error (rows=None) unless
    strict, in which case ReadError propagates.
    """
    tv = TableView()
    name = metadata_name or pointer_target(blobs)
    tv.pointer = name
    if name is None:
        tv.error = "no pointer"
        return tv
    try:
        tv.meta = read_metadata_file(blobs, name)
    except ReadError as e:
        if strict:
            raise
        tv.error = str(e)
        return tv
    for sraw in tv.meta["snapshots"]:
        sv = SnapshotView(sraw)
        tv.snapshots.append(sv)
        try:
            for m in read_manifest_list(blobs, sv.manifest_list):
                sv.manifests.append(m["manifest_path"])
            seen = set()
            allrows: List[Dict[str, Any]] = []
            for mp in sv.manifests:
                for e in read_manifest(blobs, mp):
                    sv.entries.append(e)
                    fp = norm(e["data_file"]["file_path"])
                    if fp in seen:
                        continue
                    seen.add(fp)
                    sv.files.append(fp)
            if rows:
                for fp in sv.files:
                    allrows.extend(read_rows(blobs, fp))
                sv.rows = canon_rows(allrows)
            else:
                for fp in sv.files:
                    if blobs.get(fp) is None:
                        raise ReadError(f"missing data file {fp}")
                sv.rows = []
        except ReadError as e:
            if strict:
                raise
            sv.error = str(e)
            sv.rows = None
    return tv


def file_fingerprint(blobs: Blobs) -> Dict[str, str]:
    """name -> sha1 of every file under the root (lock files excluded)."""
    out = {}
    for rel in blobs.listing():
        if rel.startswith(".locks/"):
            continue
        b = blobs.get(rel)
        out[rel] = hashlib.sha1(b or b"").hexdigest()
    return out


def metadata_versions(blobs: Blobs) -> List[Tuple[int, str]]:
    out = []
    for rel in blobs.listing():
        if rel.startswith("metadata/") and rel.count("/") == 1:
            m = _META_RE.match(rel.split("/", 1)[1])
            if m:
                out.append((int(m.group(1)), rel.split("/", 1)[1]))
    return sorted(out)
